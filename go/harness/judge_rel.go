package main

// Oracles for the relational properties (C04, C08, C09, C10 memory clauses, C12, C14, C16, C20) and the stream driver.

import (
	"bytes"
	"errors"
	"fmt"
	"io"
	"strconv"
	"strings"

	"verifgo/normhtml"
	cm "zombiezen.com/go/commonmark"
	"zombiezen.com/go/commonmark/format"
)

func norm(s string) string { return string(normhtml.NormalizeHTML([]byte(s))) }

func renderBlocks(blocks []*cm.RootBlock, refs cm.ReferenceMap, safe bool) string {
	var buf bytes.Buffer
	(&cm.HTMLRenderer{ReferenceMap: refs, IgnoreRaw: safe}).Render(&buf, blocks)
	return buf.String()
}

func render(in []byte, safe bool) string {
	blocks, refs := cm.Parse(append([]byte(nil), in...))
	return renderBlocks(blocks, refs, safe)
}

func dumpAll(blocks []*cm.RootBlock, refs cm.ReferenceMap) string {
	sb := new(strings.Builder)
	dumpRoots(sb, blocks)
	dumpRefs(sb, refs)
	return sb.String()
}

// ---- scripted reader ----

var errE1 = errors.New("E1")
var errE2 = errors.New("E2")

type scriptReader struct {
	data   []byte
	caps   []int // per-call size caps; afterwards unlimited
	eager  bool  // report the final error together with the data that exhausts the input
	final  error // io.EOF or an injected fault
	calls  int
	log    []string
	closed bool
}

func (s *scriptReader) Read(p []byte) (int, error) {
	capN := len(p)
	if s.calls < len(s.caps) && s.caps[s.calls] < capN {
		capN = s.caps[s.calls]
	}
	s.calls++
	n := capN
	if n > len(s.data) {
		n = len(s.data)
	}
	copy(p, s.data[:n])
	s.data = s.data[n:]
	var err error
	if len(s.data) == 0 && (s.eager || n == 0) {
		err = s.final
	}
	if err != nil {
		s.closed = true
	}
	en := "-"
	if err != nil {
		en = errName(err)
	}
	s.log = append(s.log, fmt.Sprintf("%d/%d/%s", len(p), n, en))
	return n, err
}

func errName(err error) string {
	switch {
	case err == nil:
		return "nil"
	case err == io.EOF:
		return "EOF"
	case err == errE1:
		return "E1"
	case err == errE2:
		return "E2"
	case strings.Contains(err.Error(), "block too large"):
		return "too-large"
	}
	return "other:" + err.Error()
}

// param: "caps=3.0.1;eager=1;fault=17:E1"
func parseSchedule(in []byte, param string) (*scriptReader, int) {
	s := &scriptReader{data: in, final: io.EOF}
	k := len(in)
	for _, kv := range strings.Split(param, ";") {
		if kv == "" {
			continue
		}
		eq := strings.IndexByte(kv, '=')
		if eq < 0 {
			continue
		}
		key, val := kv[:eq], kv[eq+1:]
		switch key {
		case "caps":
			for _, c := range strings.Split(val, ".") {
				if c == "" {
					continue
				}
				n, _ := strconv.Atoi(c)
				s.caps = append(s.caps, n)
			}
		case "eager":
			s.eager = val == "1"
		case "fault":
			parts := strings.Split(val, ":")
			n, _ := strconv.Atoi(parts[0])
			if n < k {
				k = n
			}
			s.final = errE1
			if len(parts) > 1 && parts[1] == "E2" {
				s.final = errE2
			}
		}
	}
	s.data = append([]byte(nil), in[:k]...)
	return s, k
}

func streamRun(in []byte, param string) (dump string, final string, extra []string, log []string) {
	rd, _ := parseSchedule(in, param)
	p := cm.NewBlockParser(rd)
	var blocks []*cm.RootBlock
	var ferr error
	for {
		b, err := p.NextBlock()
		if err != nil {
			ferr = err
			break
		}
		if b == nil {
			ferr = errors.New("nil block without error")
			break
		}
		blocks = append(blocks, b)
	}
	for i := 0; i < 3; i++ {
		b, err := p.NextBlock()
		if b != nil {
			extra = append(extra, "block")
		} else {
			extra = append(extra, errName(err))
		}
	}
	refs := make(cm.ReferenceMap)
	for _, b := range blocks {
		refs.Extract(b.Source, b.AsNode())
	}
	ip := &cm.InlineParser{ReferenceMatcher: refs}
	for _, b := range blocks {
		ip.Rewrite(b)
	}
	return dumpAll(blocks, refs), errName(ferr), extra, rd.log
}

func judgeC08(in []byte, param string, _ int) string {
	rd, k := parseSchedule(in, param)
	want := errName(rd.final)
	dump, final, extra, _ := streamRun(in, param)
	mb, mr := cm.Parse(append([]byte(nil), in[:k]...))
	mem := dumpAll(mb, mr)
	if dump != mem {
		return "C08-blocks-differ"
	}
	if final != want {
		return "C08-final-error got " + final + " want " + want
	}
	for _, e := range extra {
		if e != want {
			return "C08-not-persistent got " + e + " want " + want
		}
	}
	return ""
}

// ---- C04 ----

func judgeC04(in []byte, _ string, _ int) string {
	blocks, refs := cm.Parse(append([]byte(nil), in...))
	p := cm.NewBlockParser(bytes.NewReader(in))
	var sb []*cm.RootBlock
	for {
		b, err := p.NextBlock()
		if err != nil {
			if err != io.EOF {
				return "C04-parse-error " + errName(err)
			}
			break
		}
		sb = append(sb, b)
	}
	srefs := make(cm.ReferenceMap)
	for _, b := range sb {
		srefs.Extract(b.Source, b.AsNode())
	}
	ip := &cm.InlineParser{ReferenceMatcher: srefs}
	for _, b := range sb {
		ip.Rewrite(b)
	}
	for k := 0; k < 30; k++ {
		r := cfgOf(k)
		r.ReferenceMap = refs
		var buf bytes.Buffer
		if err := r.Render(&buf, blocks); err != nil {
			return fmt.Sprintf("C04-render-error cfg %d", k)
		}
	}
	var buf bytes.Buffer
	if err := cm.RenderHTML(&buf, blocks, refs); err != nil {
		return "C04-renderhtml-error"
	}
	buf.Reset()
	if err := format.Format(&buf, blocks); err != nil {
		return "C04-format-error"
	}
	for _, b := range blocks {
		n := 0
		cm.Walk(b.AsNode(), &cm.WalkOptions{Pre: func(c *cm.Cursor) bool { n++; return true }, Post: func(c *cm.Cursor) bool { n++; return true }})
		cm.Walk(b.AsNode(), &cm.WalkOptions{})
	}
	return ""
}

// ---- C09 ----

func splitLines(in []byte) []string {
	var out []string
	s := string(in)
	for len(s) > 0 {
		i := strings.IndexByte(s, '\n')
		if i < 0 {
			out = append(out, s)
			break
		}
		out = append(out, s[:i+1])
		s = s[i+1:]
	}
	return out
}

func renderChildren(rb *cm.RootBlock, parent *cm.Block, from int, refs cm.ReferenceMap) string {
	var parts []*cm.RootBlock
	for i := from; i < parent.ChildCount(); i++ {
		c := parent.Child(i).Block()
		if c == nil {
			return "<<inline child>>"
		}
		parts = append(parts, &cm.RootBlock{Source: rb.Source, Block: *c})
	}
	return renderBlocks(parts, refs, true)
}

func judgeC09(in []byte, _ string, _ int) string {
	if bytes.IndexByte(in, '\t') >= 0 || bytes.IndexByte(in, '\r') >= 0 || bytes.IndexByte(in, 0) >= 0 {
		return ""
	}
	want := norm(render(in, true))
	// quote
	var q strings.Builder
	for _, l := range splitLines(in) {
		q.WriteString("> " + l)
	}
	if q.Len() > 0 {
		blocks, refs := cm.Parse([]byte(q.String()))
		if len(blocks) != 1 || blocks[0].Kind() != cm.BlockQuoteKind {
			if want != "" || len(blocks) > 1 {
				return "C09-quote-shape"
			}
		} else if got := norm(renderChildren(blocks[0], &blocks[0].Block, 0, refs)); got != want {
			return "C09-quote"
		}
	}
	// list item
	if len(in) == 0 || in[0] == ' ' || in[0] == '\n' {
		return ""
	}
	lines := splitLines(in)
	for _, l := range lines {
		if strings.TrimSpace(l) == "" {
			return ""
		}
	}
	for _, marker := range []string{"-", "7.", "+", "12)"} {
		for n := 1; n <= 4; n++ {
			pad := strings.Repeat(" ", len(marker)+n)
			var sb strings.Builder
			for i, l := range lines {
				if i == 0 {
					sb.WriteString(marker + strings.Repeat(" ", n) + l)
				} else {
					sb.WriteString(pad + l)
				}
			}
			first := strings.TrimRight(splitLines([]byte(sb.String()))[0], "\n")
			t := strings.ReplaceAll(first, " ", "")
			if len(t) >= 3 && (strings.Trim(t, "-") == "" || strings.Trim(t, "*") == "" || strings.Trim(t, "_") == "") {
				continue
			}
			blocks, refs := cm.Parse([]byte(sb.String()))
			if len(blocks) != 1 || blocks[0].Kind() != cm.ListKind || blocks[0].ChildCount() != 1 {
				return fmt.Sprintf("C09-list-shape marker %s n %d", marker, n)
			}
			item := blocks[0].Child(0).Block()
			if got := norm(renderChildren(blocks[0], item, 1, refs)); got != want {
				return fmt.Sprintf("C09-list marker %s n %d", marker, n)
			}
		}
	}
	return ""
}

// ---- C14 ----

func judgeC14(in []byte, _ string, _ int) string {
	if !bytes.ContainsRune(in, '\r') {
		h := render(in, true)
		if strings.ReplaceAll(render(bytes.ReplaceAll(in, []byte("\n"), []byte("\r\n")), true), "\r\n", "\n") != h {
			return "C14-crlf"
		}
		if strings.ReplaceAll(render(bytes.ReplaceAll(in, []byte("\n"), []byte("\r")), true), "\r", "\n") != h {
			return "C14-cr"
		}
		// the same through the streaming entry point, delivered one byte at a time (every Read ends right after a CR at some point)
		for _, v := range []struct{ eol, sig string }{{"\r\n", "C14-crlf-stream"}, {"\r", "C14-cr-stream"}} {
			doc := bytes.ReplaceAll(in, []byte("\n"), []byte(v.eol))
			if len(doc) < 400 {
				if strings.ReplaceAll(renderStreamOneByte(doc), v.eol, "\n") != h {
					return v.sig
				}
			}
		}
	}
	// padding clause: blank lines in front shift offsets and line numbers only
	for _, pre := range []string{"\n", "  \n\n", "\r\n \t\n"} {
		if strings.HasSuffix(pre, "\r") && len(in) > 0 && in[0] == '\n' {
			continue
		}
		a, ar := cm.Parse(append([]byte(nil), in...))
		b, br := cm.Parse(append([]byte(pre), in...))
		if len(a) != len(b) {
			return "C14-pad-count"
		}
		shiftLines := specLineCount([]byte(pre))
		for i := range a {
			if b[i].StartOffset != a[i].StartOffset+int64(len(pre)) || b[i].EndOffset != a[i].EndOffset+int64(len(pre)) || b[i].StartLine != a[i].StartLine+shiftLines {
				return "C14-pad-shift"
			}
			b[i].StartOffset, b[i].EndOffset, b[i].StartLine = a[i].StartOffset, a[i].EndOffset, a[i].StartLine
		}
		if dumpAll(a, ar) != dumpAll(b, br) {
			return "C14-pad-tree"
		}
	}
	if len(in) > 0 && in[len(in)-1] != '\n' && in[len(in)-1] != '\r' {
		if norm(render(in, true)) != norm(render(append(append([]byte(nil), in...), '\n'), true)) {
			return "C14-finalnl"
		}
	}
	return ""
}

// renderStreamOneByte parses doc through NewBlockParser under one-byte reads, then Extract + Rewrite, and renders in safe mode.
func oneByteBlocks(doc []byte) []*cm.RootBlock {
	rd := &scriptReader{data: append([]byte(nil), doc...), final: io.EOF}
	for i := 0; i < len(doc)+2; i++ {
		rd.caps = append(rd.caps, 1)
	}
	p := cm.NewBlockParser(rd)
	var sb []*cm.RootBlock
	for {
		b, err := p.NextBlock()
		if err != nil {
			break
		}
		sb = append(sb, b)
	}
	return sb
}

func renderStreamOneByte(doc []byte) string {
	sb := oneByteBlocks(doc)
	refs := make(cm.ReferenceMap)
	for _, b := range sb {
		refs.Extract(b.Source, b.AsNode())
	}
	ip := &cm.InlineParser{ReferenceMatcher: refs}
	for _, b := range sb {
		ip.Rewrite(b)
	}
	return renderBlocks(sb, refs, true)
}

// ---- C16 ----

func judgeC16(in []byte, _ string, _ int) string {
	blocks, refs := cm.Parse(append([]byte(nil), in...))
	prevDefEnd := int64(-1)
	for _, rb := range blocks {
		skip := rb.Kind() == cm.ParagraphKind && rb.StartOffset == prevDefEnd
		// the structural situation of the property's paragraph exception, for a block that is not a paragraph:
		// it starts where a reference definition split off the same source paragraph ends, with an indented line
		ctx := ""
		if rb.StartOffset == prevDefEnd && len(rb.Source) > 0 && (rb.Source[0] == ' ' || rb.Source[0] == '\t') {
			ctx = " indented-continuation-after-definition"
		}
		if rb.Kind() == cm.LinkReferenceDefinitionKind {
			prevDefEnd = rb.EndOffset
		} else {
			prevDefEnd = -1
		}
		if skip {
			continue
		}
		p := cm.NewBlockParser(bytes.NewReader(rb.Source))
		var got []*cm.RootBlock
		for {
			b, err := p.NextBlock()
			if err != nil {
				break
			}
			(&cm.InlineParser{ReferenceMatcher: refs}).Rewrite(b)
			got = append(got, b)
		}
		if len(got) != 1 {
			return fmt.Sprintf("C16-count B%d%s got %d", int(rb.Kind()), ctx, len(got))
		}
		var a, b strings.Builder
		dumpNode(&a, rb.Source, rb.AsNode())
		dumpNode(&b, got[0].Source, got[0].AsNode())
		if a.String() != b.String() || !bytes.Equal(rb.Source, got[0].Source) {
			return fmt.Sprintf("C16-tree B%d%s", int(rb.Kind()), ctx)
		}
		// the same re-parse when the Source arrives one byte at a time
		if len(rb.Source) < 300 {
			got1 := oneByteBlocks(rb.Source)
			if len(got1) != 1 {
				return fmt.Sprintf("C16-count-onebyte B%d%s got %d", int(rb.Kind()), ctx, len(got1))
			}
			(&cm.InlineParser{ReferenceMatcher: refs}).Rewrite(got1[0])
			var c strings.Builder
			dumpNode(&c, got1[0].Source, got1[0].AsNode())
			if a.String() != c.String() {
				return fmt.Sprintf("C16-tree-onebyte B%d%s", int(rb.Kind()), ctx)
			}
		}
	}
	return ""
}

// ---- C12 ----

func judgeC12(in []byte, _ string, _ int) string {
	blocks, refs := cm.Parse(append([]byte(nil), in...))
	// the map equals extracting the definitions from the root blocks in order
	ex := make(cm.ReferenceMap)
	for _, b := range blocks {
		ex.Extract(b.Source, b.AsNode())
	}
	if len(ex) != len(refs) {
		return "C12-map-not-extract"
	}
	for k, v := range refs {
		if ex[k] != v {
			return "C12-map-not-extract"
		}
	}
	// first definition in source order wins: walk definitions in order
	seen := map[string]cm.LinkDefinition{}
	for _, rb := range blocks {
		var visit func(b *cm.Block)
		visit = func(b *cm.Block) {
			if b.Kind() == cm.LinkReferenceDefinitionKind {
				lab := b.Child(0).Inline().LinkReference()
				if _, ok := seen[lab]; !ok && lab != "" {
					d := cm.LinkDefinition{Destination: b.Child(1).Inline().Text(rb.Source), TitlePresent: b.ChildCount() > 2}
					if d.TitlePresent {
						d.Title = b.Child(2).Inline().Text(rb.Source)
					}
					seen[lab] = d
				}
				return
			}
			for i := 0; i < b.ChildCount(); i++ {
				if cb := b.Child(i).Block(); cb != nil {
					visit(cb)
				}
			}
		}
		visit(&rb.Block)
	}
	for k, v := range seen {
		if refs[k] != v {
			return "C12-first-wins"
		}
	}
	if len(seen) != len(refs) {
		return "C12-map-extra-keys"
	}
	// keys are in normal form: no leading/trailing/double blanks (space, tab, line ending)
	for k := range refs {
		if k != strings.Join(strings.FieldsFunc(k, func(r rune) bool { return r == ' ' || r == '\t' || r == '\n' || r == '\r' }), " ") {
			return "C12-key-not-normal-ws"
		}
	}
	// closure: every reference link/image names a key of the map
	sig := ""
	for _, rb := range blocks {
		cm.Walk(rb.AsNode(), &cm.WalkOptions{Pre: func(c *cm.Cursor) bool {
			if i := c.Node().Inline(); i != nil && (i.Kind() == cm.LinkKind || i.Kind() == cm.ImageKind) {
				if r := i.LinkReference(); r != "" {
					if _, ok := refs[r]; !ok {
						sig = "C12-closure"
					}
				}
			}
			return true
		}})
	}
	return sig
}

// param "uselabel\tdeflabel" in hex pairs is not needed: the label-matching clause is judged on generated
// documents "[def]: /u\n\n[use]" where param = expected match (1/0) computed by the generator's own normaliser.
func judgeC12match(in []byte, param string, _ int) string {
	blocks, _ := cm.Parse(append([]byte(nil), in...))
	found := false
	for _, rb := range blocks {
		cm.Walk(rb.AsNode(), &cm.WalkOptions{Pre: func(c *cm.Cursor) bool {
			if i := c.Node().Inline(); i != nil && i.Kind() == cm.LinkKind && i.LinkReference() != "" {
				found = true
			}
			return true
		}})
	}
	if (param == "1") != found {
		return fmt.Sprintf("C12-match expected %s got %v", param, found)
	}
	return ""
}

// ---- C10 memory clauses and C20 first clause ----

type failWriter struct {
	failAt int // index of the first failing call; -1 never
	calls  int
	err    error
	buf    bytes.Buffer
}

func (w *failWriter) Write(p []byte) (int, error) {
	k := w.calls
	w.calls++
	if w.failAt >= 0 && k >= w.failAt {
		return 0, w.err
	}
	return w.buf.Write(p)
}
func (w *failWriter) WriteString(s string) (int, error) { return w.Write([]byte(s)) }

func judgeC10mem(in []byte, param string, idx int) string {
	blocks, refs := cm.Parse(append([]byte(nil), in...))
	before := dumpAll(blocks, refs)
	srcs := make([][]byte, len(blocks))
	for i, b := range blocks {
		srcs[i] = append([]byte(nil), b.Source...)
	}
	k := cfgIndex(param, idx)
	r := cfgOf(k)
	r.ReferenceMap = refs
	var b1, b2 bytes.Buffer
	r.Render(&b1, blocks)
	r.Render(&b2, blocks)
	if !bytes.Equal(b1.Bytes(), b2.Bytes()) {
		return "C10-nondeterministic"
	}
	if dumpAll(blocks, refs) != before {
		return "C10-tree-modified"
	}
	for i, b := range blocks {
		if !bytes.Equal(srcs[i], b.Source) {
			return "C10-source-modified"
		}
	}
	// block list = blocks joined by blank lines
	var parts [][]byte
	for _, b := range blocks {
		parts = append(parts, r.AppendBlock(nil, b))
	}
	if !bytes.Equal(bytes.Join(parts, []byte("\n\n")), b1.Bytes()) {
		return "C10-join"
	}
	// definitions render to nothing
	for _, b := range blocks {
		if b.Kind() == cm.LinkReferenceDefinitionKind && len(r.AppendBlock(nil, b)) != 0 {
			return "C10-definition-output"
		}
	}
	return ""
}

func judgeC20(in []byte, param string, _ int) string {
	blocks, refs := cm.Parse(append([]byte(nil), in...))
	before := dumpAll(blocks, refs)
	var b1, b2 bytes.Buffer
	if err := format.Format(&b1, blocks); err != nil {
		return "C20-healthy-error"
	}
	if err := format.Format(&b2, blocks); err != nil || !bytes.Equal(b1.Bytes(), b2.Bytes()) {
		return "C20-nondeterministic"
	}
	if dumpAll(blocks, refs) != before {
		return "C20-tree-modified"
	}
	// count calls on a healthy writer, then fail at every index
	hw := &failWriter{failAt: -1}
	format.Format(hw, blocks)
	n := hw.calls
	limit := n
	if limit > 40 {
		limit = 40
	}
	for k := 0; k < limit; k++ {
		fw := &failWriter{failAt: k, err: errE1}
		err := format.Format(fw, blocks)
		if err != errE1 {
			return fmt.Sprintf("C20-first-error call %d got %s", k, errName(err))
		}
		if fw.calls != k+1 {
			return fmt.Sprintf("C20-wrote-after-error call %d made %d calls", k, fw.calls)
		}
		if !bytes.HasPrefix(b1.Bytes(), fw.buf.Bytes()) {
			return "C20-prefix"
		}
	}
	return ""
}

// second clause: canonical-style document; format, reparse, same HTML; format again reproduces
func judgeC20rt(in []byte, _ string, _ int) string {
	blocks, refs := cm.Parse(append([]byte(nil), in...))
	var f1 bytes.Buffer
	if err := format.Format(&f1, blocks); err != nil {
		return "C20-healthy-error"
	}
	b2, r2 := cm.Parse(append([]byte(nil), f1.Bytes()...))
	h1 := norm(renderBlocks(blocks, refs, false))
	h2 := norm(renderBlocks(b2, r2, false))
	if h1 != h2 {
		return "C20-roundtrip-html"
	}
	var f2 bytes.Buffer
	format.Format(&f2, b2)
	if !bytes.Equal(f1.Bytes(), f2.Bytes()) {
		return "C20-roundtrip-fixpoint"
	}
	return ""
}

func init() {
	modes["stream"] = func(in []byte, param string, _ int) string {
		dump, final, extra, log := streamRun(in, param)
		return dump + "\tE:" + final + "\tX:" + strings.Join(extra, ",") + "\tL:" + strings.Join(log, ",")
	}
	modes["judge:C04"] = wrapJudge(judgeC04)
	modes["judge:C08"] = wrapJudge(judgeC08)
	modes["judge:C09"] = wrapJudge(judgeC09)
	modes["judge:C10"] = wrapJudge(judgeC10mem)
	modes["judge:C12"] = wrapJudge(judgeC12)
	modes["judge:C12match"] = wrapJudge(judgeC12match)
	modes["judge:C14"] = wrapJudge(judgeC14)
	modes["judge:C16"] = wrapJudge(judgeC16)
	modes["judge:C20"] = wrapJudge(judgeC20)
	modes["judge:C20rt"] = wrapJudge(judgeC20rt)
}
