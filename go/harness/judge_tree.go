package main

// Oracles that decide the tree-shaped properties (C01, C02, C03, C05, C13) directly on the
// implementation's output.  They are used to look for a concrete failing input once a proof
// obligation or the correspondence has broken, and to track known findings.  Each returns ""
// when the property holds on the input and otherwise a short failure signature.

import (
	"bytes"
	"fmt"
	"io"
	"strings"
	"unicode/utf8"
	"unsafe"

	cm "zombiezen.com/go/commonmark"
)

func kindName(n cm.Node) string {
	if b := n.Block(); b != nil {
		return "B" + fmt.Sprint(int(b.Kind()))
	}
	if i := n.Inline(); i != nil {
		return "I" + fmt.Sprint(int(i.Kind()))
	}
	return "nil"
}

func isBlankByte(c byte) bool { return c == ' ' || c == '\t' || c == '\r' || c == '\n' }

// specLineCount counts line endings (LF, CR, CRLF each once) in text.
func specLineCount(text []byte) int {
	n := 0
	for i := 0; i < len(text); i++ {
		switch text[i] {
		case '\n':
			n++
		case '\r':
			n++
			if i+1 < len(text) && text[i+1] == '\n' {
				i++
			}
		}
	}
	return n
}

func replaceNUL(b []byte) []byte {
	return bytes.ReplaceAll(b, []byte{0}, []byte("\xef\xbf\xbd"))
}

func judgeTiling(in []byte, blocks []*cm.RootBlock, entry string) string {
	prevEnd := 0
	for k, rb := range blocks {
		b := struct {
			StartOffset, EndOffset, StartLine int
			Source                            []byte
		}{int(rb.StartOffset), int(rb.EndOffset), rb.StartLine, rb.Source}
		if b.StartOffset < prevEnd || b.EndOffset < b.StartOffset || b.EndOffset > len(in) {
			return fmt.Sprintf("C01-order %s block %d [%d,%d) prevEnd %d", entry, k, b.StartOffset, b.EndOffset, prevEnd)
		}
		for i := prevEnd; i < b.StartOffset; i++ {
			if !isBlankByte(in[i]) {
				return fmt.Sprintf("C01-gap %s byte %d before block %d", entry, i, k)
			}
		}
		want := replaceNUL(in[b.StartOffset:b.EndOffset])
		if !bytes.Equal(want, b.Source) {
			return fmt.Sprintf("C01-source %s block %d", entry, k)
		}
		// a CR at the end of the prefix followed by LF at StartOffset cannot happen (a block never starts with LF)
		if wantLine := 1 + specLineCount(in[:b.StartOffset]); b.StartLine != wantLine {
			return fmt.Sprintf("C01-line %s block %d got %d want %d", entry, k, b.StartLine, wantLine)
		}
		prevEnd = b.EndOffset
	}
	for i := prevEnd; i < len(in); i++ {
		if !isBlankByte(in[i]) {
			return fmt.Sprintf("C01-tail %s byte %d", entry, i)
		}
	}
	return ""
}

func judgeC01(in []byte, param string, _ int) string {
	buf := append([]byte(nil), in...)
	blocks, _ := cm.Parse(buf)
	if !bytes.Equal(buf, in) {
		return "C01-buffer-modified"
	}
	if s := judgeTiling(in, blocks, "mem"); s != "" {
		return s
	}
	if bytes.IndexByte(in, 0) < 0 {
		for k, b := range blocks {
			if int(b.EndOffset-b.StartOffset) != len(b.Source) {
				return fmt.Sprintf("C01-len block %d", k)
			}
			if len(b.Source) > 0 && unsafe.Pointer(&b.Source[0]) != unsafe.Pointer(&buf[b.StartOffset]) {
				return fmt.Sprintf("C01-alias block %d", k)
			}
		}
	}
	// streaming entry point; earlier Sources must stay intact after later calls
	var rd io.Reader = bytes.NewReader(in)
	if param != "" {
		// a read schedule (no fault): the streaming entry point must tile the same input under any chunking
		sr, _ := parseSchedule(in, param)
		rd = sr
	}
	p := cm.NewBlockParser(rd)
	var sblocks []*cm.RootBlock
	var copies [][]byte
	for {
		b, err := p.NextBlock()
		if err != nil {
			if err != io.EOF {
				return "C01-stream-error " + err.Error()
			}
			break
		}
		sblocks = append(sblocks, b)
		copies = append(copies, append([]byte(nil), b.Source...))
	}
	for k, b := range sblocks {
		if !bytes.Equal(b.Source, copies[k]) {
			return fmt.Sprintf("C01-stream-overwritten block %d", k)
		}
	}
	return judgeTiling(in, sblocks, "stream")
}

func parseBoth(in []byte) [][]*cm.RootBlock {
	blocks, _ := cm.Parse(append([]byte(nil), in...))
	sb := streamBlocks(in)
	refs := make(cm.ReferenceMap)
	for _, b := range sb {
		refs.Extract(b.Source, b.AsNode())
	}
	ip := &cm.InlineParser{ReferenceMatcher: refs}
	for _, b := range sb {
		ip.Rewrite(b)
	}
	return [][]*cm.RootBlock{blocks, sb}
}

func judgeC02(in []byte, _ string, _ int) string {
	valid := utf8.Valid(in)
	blocks, _ := cm.Parse(append([]byte(nil), in...))
	for _, rb := range blocks {
		src := rb.Source
		sig := ""
		var walk func(n cm.Node, parent cm.Span, pk string)
		walk = func(n cm.Node, parent cm.Span, pk string) {
			if sig != "" {
				return
			}
			sp := n.Span()
			kind := kindName(n)
			if !sp.IsValid() || sp.End > len(src) {
				sig = "C02-invalid " + kind
				return
			}
			if sp.Start < parent.Start || sp.End > parent.End {
				sig = "C02-outofparent " + kind + " in " + pk
				return
			}
			if valid {
				if (sp.Start < len(src) && !utf8.RuneStart(src[sp.Start])) || (sp.End < len(src) && !utf8.RuneStart(src[sp.End])) {
					sig = "C02-charboundary " + kind
					return
				}
			}
			prevEnd := sp.Start
			for i := 0; i < n.ChildCount(); i++ {
				c := n.Child(i)
				cs := c.Span()
				if cs.IsValid() && cs.Start < prevEnd {
					sig = "C02-siblingoverlap " + kindName(c) + " in " + kind
					return
				}
				if cs.IsValid() {
					prevEnd = cs.End
				}
				walk(c, sp, kind)
			}
		}
		rs := rb.Span()
		if rs.End != len(src) {
			return "C02-rootend"
		}
		for i := 0; i < rs.Start && i < len(src); i++ {
			if src[i] != ' ' && src[i] != '\t' {
				return "C02-rootprefix"
			}
		}
		walk(rb.AsNode(), cm.Span{Start: 0, End: len(src)}, "root")
		if sig != "" {
			return sig
		}
	}
	return ""
}

func judgeC03(in []byte, _ string, _ int) string {
	blocks, _ := cm.Parse(append([]byte(nil), in...))
	for _, rb := range blocks {
		src := rb.Source
		cover := make([]int, len(src))
		var walk func(n cm.Node)
		walk = func(n cm.Node) {
			for i := 0; i < n.ChildCount(); i++ {
				walk(n.Child(i))
			}
			if n.ChildCount() == 0 {
				sp := n.Span()
				if n.Inline() != nil || n.Block().Kind() == cm.ListMarkerKind {
					for i := sp.Start; i < sp.End && i < len(src); i++ {
						if i >= 0 {
							cover[i]++
						}
					}
				}
			}
		}
		walk(rb.AsNode())
		for i, c := range cover {
			if c > 1 {
				return fmt.Sprintf("C03-double %s byte %d", kindName(rb.AsNode()), i)
			}
		}
		for i, c := range cover {
			ch := src[i]
			if c == 0 && (ch >= 0x80 || ch >= '0' && ch <= '9' || ch >= 'a' && ch <= 'z' || ch >= 'A' && ch <= 'Z') {
				return fmt.Sprintf("C03-lost %s", kindName(rb.AsNode()))
			}
		}
	}
	return ""
}

// ---- C05: node grammar ----

func phrasing(k cm.InlineKind) bool {
	switch k {
	case cm.TextKind, cm.SoftLineBreakKind, cm.HardLineBreakKind, cm.IndentKind, cm.CharacterReferenceKind,
		cm.EmphasisKind, cm.StrongKind, cm.LinkKind, cm.ImageKind, cm.CodeSpanKind, cm.AutolinkKind, cm.HTMLTagKind, cm.RawHTMLKind:
		return true
	}
	return false
}

func grammarInline(src []byte, i *cm.Inline, inLink bool) string {
	k := i.Kind()
	if k == cm.UnparsedKind {
		return "C05-unparsed"
	}
	n := i.ChildCount()
	switch k {
	case cm.LinkKind, cm.ImageKind:
		if k == cm.LinkKind && inLink {
			return "C05-link-in-link"
		}
		// tail: [dest][title] | [label] | nothing; none of these kinds may occur earlier
		tail := 0
		if n > 0 {
			switch i.Child(n - 1).Kind() {
			case cm.LinkLabelKind:
				tail = 1
			case cm.LinkTitleKind:
				if n < 2 || i.Child(n-2).Kind() != cm.LinkDestinationKind {
					return "C05-link-title-without-destination"
				}
				tail = 2
			case cm.LinkDestinationKind:
				tail = 1
			}
		}
		for c := 0; c < n-tail; c++ {
			ck := i.Child(c).Kind()
			if ck == cm.LinkLabelKind || ck == cm.LinkTitleKind || ck == cm.LinkDestinationKind {
				return "C05-link-part-not-at-end"
			}
			if !phrasing(ck) {
				return fmt.Sprintf("C05-link-child I%d", int(ck))
			}
		}
		hasLabel := tail == 1 && i.Child(n-1).Kind() == cm.LinkLabelKind
		if i.LinkReference() != "" {
			if i.LinkDestination() != nil || i.LinkTitle() != nil {
				return "C05-reference-link-with-destination"
			}
		}
		_ = hasLabel
		for c := 0; c < n; c++ {
			if s := grammarInline(src, i.Child(c), inLink || k == cm.LinkKind); s != "" {
				return s
			}
		}
		return ""
	case cm.EmphasisKind, cm.StrongKind:
		for c := 0; c < n; c++ {
			if !phrasing(i.Child(c).Kind()) {
				return fmt.Sprintf("C05-emphasis-child I%d", int(i.Child(c).Kind()))
			}
			if s := grammarInline(src, i.Child(c), inLink); s != "" {
				return s
			}
		}
		return ""
	case cm.CodeSpanKind:
		for c := 0; c < n; c++ {
			ck := i.Child(c).Kind()
			if ck != cm.TextKind && ck != cm.SoftLineBreakKind && ck != cm.IndentKind {
				return fmt.Sprintf("C05-codespan-child I%d", int(ck))
			}
		}
		return ""
	case cm.LinkDestinationKind, cm.LinkTitleKind, cm.LinkLabelKind, cm.InfoStringKind, cm.AutolinkKind, cm.HTMLTagKind:
		for c := 0; c < n; c++ {
			ck := i.Child(c).Kind()
			if ck != cm.TextKind && ck != cm.CharacterReferenceKind && ck != cm.SoftLineBreakKind && ck != cm.IndentKind && ck != cm.RawHTMLKind {
				return fmt.Sprintf("C05-%d-child I%d", int(k), int(ck))
			}
			if i.Child(c).ChildCount() != 0 {
				return "C05-leaf-with-children"
			}
		}
		return ""
	default:
		if n != 0 {
			return fmt.Sprintf("C05-leaf-with-children I%d", int(k))
		}
	}
	return ""
}

func grammarBlock(src []byte, b *cm.Block, parent *cm.Block) string {
	k := b.Kind()
	n := b.ChildCount()
	// accessor agreement
	lvl := b.HeadingLevel()
	switch k {
	case cm.ATXHeadingKind:
		if lvl < 1 || lvl > 6 {
			return "C05-atx-level"
		}
	case cm.SetextHeadingKind:
		if lvl < 1 || lvl > 2 {
			return "C05-setext-level"
		}
	default:
		if lvl != 0 {
			return "C05-level-nonheading"
		}
	}
	num := b.ListItemNumber(src)
	if k == cm.ListItemKind && b.IsOrderedList() {
		if num < 0 || num > 999999999 {
			return "C05-item-number"
		}
	} else if num != -1 {
		return "C05-item-number-elsewhere"
	}
	switch k {
	case cm.ListKind:
		if n == 0 {
			return "C05-empty-list"
		}
		for c := 0; c < n; c++ {
			cb := b.Child(c).Block()
			if cb == nil || cb.Kind() != cm.ListItemKind {
				return "C05-list-child"
			}
			if cb.IsOrderedList() != b.IsOrderedList() {
				return "C05-list-item-ordered-disagree"
			}
			if cb.IsTightList() != b.IsTightList() {
				return "C05-list-item-tight-disagree"
			}
		}
	case cm.ListItemKind:
		if parent == nil || parent.Kind() != cm.ListKind {
			return "C05-item-outside-list"
		}
		if n == 0 || b.Child(0).Block() == nil || b.Child(0).Block().Kind() != cm.ListMarkerKind {
			return "C05-item-no-marker"
		}
		for c := 1; c < n; c++ {
			cb := b.Child(c).Block()
			if cb == nil || cb.Kind() == cm.ListMarkerKind || cb.Kind() == cm.ListItemKind {
				return "C05-item-child"
			}
		}
	case cm.ListMarkerKind:
		if parent == nil || parent.Kind() != cm.ListItemKind {
			return "C05-marker-outside-item"
		}
		if n != 0 {
			return "C05-marker-children"
		}
	case cm.BlockQuoteKind:
		for c := 0; c < n; c++ {
			cb := b.Child(c).Block()
			if cb == nil || cb.Kind() == cm.ListMarkerKind || cb.Kind() == cm.ListItemKind {
				return "C05-quote-child"
			}
		}
	case cm.LinkReferenceDefinitionKind:
		if n < 2 || n > 3 {
			return "C05-definition-arity"
		}
		want := []cm.InlineKind{cm.LinkLabelKind, cm.LinkDestinationKind, cm.LinkTitleKind}
		for c := 0; c < n; c++ {
			ci := b.Child(c).Inline()
			if ci == nil || ci.Kind() != want[c] {
				return "C05-definition-parts"
			}
		}
	case cm.ParagraphKind, cm.ATXHeadingKind, cm.SetextHeadingKind:
		for c := 0; c < n; c++ {
			ci := b.Child(c).Inline()
			if ci == nil {
				return "C05-leafblock-block-child"
			}
			if ci.Kind() == cm.UnparsedKind {
				return "C05-unparsed"
			}
			if !phrasing(ci.Kind()) {
				return fmt.Sprintf("C05-phrasing I%d in B%d", int(ci.Kind()), int(k))
			}
		}
	case cm.IndentedCodeBlockKind, cm.FencedCodeBlockKind:
		for c := 0; c < n; c++ {
			ci := b.Child(c).Inline()
			if ci == nil {
				return "C05-code-block-child"
			}
			ck := ci.Kind()
			if ck == cm.InfoStringKind {
				if k != cm.FencedCodeBlockKind || c != 0 {
					return "C05-infostring-position"
				}
				continue
			}
			if ck != cm.TextKind && ck != cm.IndentKind && ck != cm.SoftLineBreakKind {
				return fmt.Sprintf("C05-code-child I%d", int(ck))
			}
		}
	case cm.HTMLBlockKind:
		for c := 0; c < n; c++ {
			ci := b.Child(c).Inline()
			if ci == nil {
				return "C05-html-block-child"
			}
			ck := ci.Kind()
			if ck != cm.RawHTMLKind && ck != cm.IndentKind {
				return fmt.Sprintf("C05-html-child I%d", int(ck))
			}
		}
	case cm.ThematicBreakKind:
		if n != 0 {
			return "C05-thematic-children"
		}
	default:
		return fmt.Sprintf("C05-unknown-kind B%d", int(k))
	}
	for c := 0; c < n; c++ {
		ch := b.Child(c)
		if cb := ch.Block(); cb != nil {
			if s := grammarBlock(src, cb, b); s != "" {
				return s
			}
		} else if ci := ch.Inline(); ci != nil {
			if s := grammarInline(src, ci, false); s != "" {
				return s
			}
		}
	}
	return ""
}

func judgeC05(in []byte, _ string, _ int) string {
	for e, blocks := range parseBoth(in) {
		for _, rb := range blocks {
			if rb.Kind() == cm.ListItemKind || rb.Kind() == cm.ListMarkerKind {
				return "C05-root-kind"
			}
			if s := grammarBlock(rb.Source, &rb.Block, nil); s != "" {
				if rb.Kind() == cm.ListKind || s != "C05-item-outside-list" {
					return s + []string{"", " (stream)"}[e]
				}
			}
		}
	}
	return ""
}

// ---- C13: span shapes ----

func allOf(b []byte, c byte) bool {
	for _, x := range b {
		if x != c {
			return false
		}
	}
	return true
}

func trimEOL(b []byte) []byte {
	for len(b) > 0 && (b[len(b)-1] == '\n' || b[len(b)-1] == '\r') {
		b = b[:len(b)-1]
	}
	return b
}

func shapeNode(src []byte, n cm.Node) string {
	sp := n.Span()
	if !sp.IsValid() || sp.End > len(src) {
		return "C13-invalid-span " + kindName(n)
	}
	t := src[sp.Start:sp.End]
	if b := n.Block(); b != nil {
		switch b.Kind() {
		case cm.ListMarkerKind:
			ok := false
			if len(t) == 1 && (t[0] == '-' || t[0] == '+' || t[0] == '*') {
				ok = true
			} else if len(t) >= 2 && len(t) <= 10 && (t[len(t)-1] == '.' || t[len(t)-1] == ')') {
				ok = true
				for _, c := range t[:len(t)-1] {
					if c < '0' || c > '9' {
						ok = false
					}
				}
			}
			if !ok {
				return "C13-listmarker"
			}
		case cm.ATXHeadingKind:
			lvl := b.HeadingLevel()
			if len(t) < lvl || !allOf(t[:lvl], '#') || (len(t) > lvl && t[lvl] == '#') {
				return "C13-atx"
			}
		case cm.SetextHeadingKind:
			body := bytes.TrimRight(trimEOL(t), " \t")
			want := byte('=')
			if b.HeadingLevel() == 2 {
				want = '-'
			}
			if len(body) == 0 || body[len(body)-1] != want {
				return "C13-setext"
			}
		case cm.FencedCodeBlockKind:
			if len(t) < 3 || (t[0] != '`' && t[0] != '~') || t[1] != t[0] || t[2] != t[0] {
				return "C13-fence"
			}
		case cm.BlockQuoteKind:
			if len(t) < 1 || t[0] != '>' {
				return "C13-quote"
			}
		}
	} else if i := n.Inline(); i != nil {
		switch i.Kind() {
		case cm.EmphasisKind:
			if len(t) < 2 || (t[0] != '*' && t[0] != '_') || t[len(t)-1] != t[0] {
				return "C13-emphasis"
			}
		case cm.StrongKind:
			if len(t) < 4 || (t[0] != '*' && t[0] != '_') || t[1] != t[0] || t[len(t)-1] != t[0] || t[len(t)-2] != t[0] {
				return "C13-strong"
			}
		case cm.CodeSpanKind:
			a := 0
			for a < len(t) && t[a] == '`' {
				a++
			}
			z := 0
			for z < len(t) && t[len(t)-1-z] == '`' {
				z++
			}
			if a == 0 || a != z || 2*a > len(t) {
				return "C13-codespan"
			}
		case cm.LinkKind:
			if len(t) < 2 || t[0] != '[' || (t[len(t)-1] != ']' && t[len(t)-1] != ')') {
				return "C13-link"
			}
		case cm.ImageKind:
			if len(t) < 3 || t[0] != '!' || t[1] != '[' || (t[len(t)-1] != ']' && t[len(t)-1] != ')') {
				return "C13-image"
			}
		case cm.AutolinkKind:
			if len(t) < 2 || t[0] != '<' || t[len(t)-1] != '>' {
				return "C13-autolink"
			}
		case cm.HTMLTagKind:
			if len(t) < 2 || t[0] != '<' || t[len(t)-1] != '>' {
				return "C13-htmltag"
			}
		case cm.CharacterReferenceKind:
			if len(t) < 3 || t[0] != '&' || t[len(t)-1] != ';' {
				return "C13-charref"
			}
		case cm.HardLineBreakKind:
			body := trimEOL(t)
			if len(body) == len(t) { // must include the line ending
				return "C13-hardbreak-no-eol"
			}
			if !(len(body) == 1 && body[0] == '\\') && !(len(body) >= 2 && allOf(body, ' ')) {
				return "C13-hardbreak"
			}
		}
	}
	for c := 0; c < n.ChildCount(); c++ {
		if s := shapeNode(src, n.Child(c)); s != "" {
			return s
		}
	}
	return ""
}

func judgeC13(in []byte, _ string, _ int) string {
	blocks, _ := cm.Parse(append([]byte(nil), in...))
	for _, rb := range blocks {
		if s := shapeNode(rb.Source, rb.AsNode()); s != "" {
			return s
		}
	}
	return ""
}

func init() {
	modes["judge:C01"] = wrapJudge(judgeC01)
	modes["judge:C02"] = wrapJudge(judgeC02)
	modes["judge:C03"] = wrapJudge(judgeC03)
	modes["judge:C05"] = wrapJudge(judgeC05)
	modes["judge:C13"] = wrapJudge(judgeC13)
}

func wrapJudge(f modeFn) modeFn {
	return func(in []byte, p string, i int) string {
		s := f(in, p, i)
		if s == "" {
			return "ok"
		}
		return "FAIL " + strings.ReplaceAll(s, "\n", " ")
	}
}
