// Copyright 2023 Ross Light
//
// Licensed under the Apache License, Version 2.0 (the "License");
// you may not use this file except in compliance with the License.
// You may obtain a copy of the License at
//
//		 https://www.apache.org/licenses/LICENSE-2.0
//
// Unless required by applicable law or agreed to in writing, software
// distributed under the License is distributed on an "AS IS" BASIS,
// WITHOUT WARRANTIES OR CONDITIONS OF ANY KIND, either express or implied.
// See the License for the specific language governing permissions and
// limitations under the License.
//
// SPDX-License-Identifier: Apache-2.0

// Package normhtml provides a function for normalizing HTML
// which ignores insignificant output differences,
// based on the [CommonMark spec test normalization].
//
// [CommonMark spec test normalization]: https://github.com/commonmark/commonmark-spec/blob/0.30.0/test/normalize.py
package normhtml

import (
	"bytes"
	"regexp"
	"sort"
	"unicode"

	"go4.org/bytereplacer"
	"golang.org/x/net/html"
	"golang.org/x/net/html/atom"
)

var whitespaceRE = regexp.MustCompile(`\s+`)

var htmlEscaper = bytereplacer.New(
	"&", "&amp;",
	`'`, "&apos;",
	`<`, "&lt;",
	`>`, "&gt;",
	`"`, "&quot;",
)

// NormalizeHTML strips insignificant output differences from HTML.
func NormalizeHTML(b []byte) []byte {
	type htmlAttribute struct {
		key   string
		value string
	}

	tok := html.NewTokenizerFragment(bytes.NewReader(b), "div")
	var output []byte
	last := html.StartTagToken
	var lastTag string
	inPre := false
	for {
		tt := tok.Next()
		switch tt {
		case html.ErrorToken:
			return output
		case html.TextToken:
			data := tok.Text()
			afterTag := last == html.EndTagToken || last == html.StartTagToken
			afterBlockTag := afterTag && isBlockTag(lastTag)
			if afterTag && lastTag == "br" {
				data = bytes.TrimLeft(data, "\n")
			}
			if !inPre {
				data = whitespaceRE.ReplaceAll(data, []byte(" "))
			}
			if afterBlockTag && !inPre {
				if last == html.StartTagToken {
					data = bytes.TrimLeftFunc(data, unicode.IsSpace)
				} else if last == html.EndTagToken {
					data = bytes.TrimSpace(data)
				}
			}
			output = append(output, htmlEscaper.Replace(bytes.Clone(data))...)
		case html.EndTagToken:
			tagBytes, _ := tok.TagName()
			tag := string(tagBytes)
			if tag == "pre" {
				inPre = false
			} else if isBlockTag(tag) {
				output = bytes.TrimRightFunc(output, unicode.IsSpace)
			}
			output = append(output, "</"...)
			output = append(output, tag...)
			output = append(output, ">"...)
			lastTag = tag
		case html.StartTagToken, html.SelfClosingTagToken:
			tagBytes, hasAttr := tok.TagName()
			tag := string(tagBytes)
			if tag == "pre" {
				inPre = true
			}
			if isBlockTag(tag) {
				output = bytes.TrimRightFunc(output, unicode.IsSpace)
			}
			output = append(output, "<"...)
			output = append(output, tag...)
			if hasAttr {
				var attrs []htmlAttribute
				for {
					k, v, more := tok.TagAttr()
					attrs = append(attrs, htmlAttribute{string(k), string(v)})
					if !more {
						break
					}
				}
				sort.Slice(attrs, func(i, j int) bool {
					return attrs[i].key < attrs[j].key
				})
				for _, attr := range attrs {
					output = append(output, " "...)
					output = append(output, attr.key...)
					if attr.value != "" {
						output = append(output, `="`...)
						output = append(output, html.EscapeString(attr.value)...)
						output = append(output, `"`...)
					}
				}
			}
			output = append(output, ">"...)
			lastTag = tag
		case html.CommentToken:
			output = append(output, tok.Raw()...)
		}

		last = tt
		if tt == html.SelfClosingTagToken {
			last = html.EndTagToken
		}
	}
}

var blockTags = map[string]struct{}{
	atom.Article.String():    {},
	atom.Header.String():     {},
	atom.Aside.String():      {},
	atom.Hgroup.String():     {},
	atom.Blockquote.String(): {},
	atom.Hr.String():         {},
	atom.Iframe.String():     {},
	atom.Body.String():       {},
	atom.Li.String():         {},
	atom.Map.String():        {},
	atom.Button.String():     {},
	atom.Object.String():     {},
	atom.Canvas.String():     {},
	atom.Ol.String():         {},
	atom.Caption.String():    {},
	atom.Output.String():     {},
	atom.Col.String():        {},
	atom.P.String():          {},
	atom.Colgroup.String():   {},
	atom.Pre.String():        {},
	atom.Dd.String():         {},
	atom.Progress.String():   {},
	atom.Div.String():        {},
	atom.Section.String():    {},
	atom.Dl.String():         {},
	atom.Table.String():      {},
	atom.Td.String():         {},
	atom.Dt.String():         {},
	atom.Tbody.String():      {},
	atom.Embed.String():      {},
	atom.Textarea.String():   {},
	atom.Fieldset.String():   {},
	atom.Tfoot.String():      {},
	atom.Figcaption.String(): {},
	atom.Th.String():         {},
	atom.Figure.String():     {},
	atom.Thead.String():      {},
	atom.Footer.String():     {},
	atom.Tr.String():         {},
	atom.Form.String():       {},
	atom.Ul.String():         {},
	atom.H1.String():         {},
	atom.H2.String():         {},
	atom.H3.String():         {},
	atom.H4.String():         {},
	atom.H5.String():         {},
	atom.H6.String():         {},
	atom.Video.String():      {},
	atom.Script.String():     {},
	atom.Style.String():      {},
}

func isBlockTag(tag string) bool {
	_, ok := blockTags[tag]
	return ok
}
