// Command eff writes GenEffects.v: a summary of the write effects of zombiezen.com/go/commonmark that matter for
// "parsing and rendering share no mutable state" (C19), extracted from the typed AST of /repo on every run.
//
//   global writes : in any function reachable from an entry point, an assignment / ++ / -- / op-assign / map or slice
//                   element store / copy() destination / append-assign whose root is a package-level variable
//   shared writes : in functions reachable from the read-only entry points (Render, AppendBlock, RenderHTML, Format,
//                   Walk, NormalizeURI and the accessors they call), a store through a value of a shared type
//                   (*Block, *Inline, *RootBlock, *HTMLRenderer, Block, Inline, RootBlock, HTMLRenderer,
//                   ReferenceMap) that is not a local allocated in the same function
// Reachability is a static call graph over identifiers resolved by go/types (function literals belong to the
// function that contains them; every method of a type is considered reachable when any method value could be
// taken is NOT modelled: interface dispatch is resolved to all methods of the package with that name).
// The soundness of this classification is trusted, not proved; the race detector supplies the runtime side.
package main

import (
	"fmt"
	"go/ast"
	"go/token"
	"go/types"
	"os"
	"sort"
	"strings"

	"golang.org/x/tools/go/packages"
)

var sharedTypeNames = map[string]bool{"Block": true, "Inline": true, "RootBlock": true, "HTMLRenderer": true, "ReferenceMap": true}

var readOnlyEntries = map[string]bool{
	"zombiezen.com/go/commonmark.RenderHTML": true, "(*zombiezen.com/go/commonmark.HTMLRenderer).Render": true,
	"(*zombiezen.com/go/commonmark.HTMLRenderer).AppendBlock": true, "zombiezen.com/go/commonmark.Walk": true,
	"zombiezen.com/go/commonmark.NormalizeURI": true, "zombiezen.com/go/commonmark/format.Format": true,
	"zombiezen.com/go/commonmark.IsEmailAddress": true,
}
var parseEntries = map[string]bool{
	"zombiezen.com/go/commonmark.Parse": true, "zombiezen.com/go/commonmark.NewBlockParser": true,
	"(*zombiezen.com/go/commonmark.BlockParser).NextBlock": true, "(*zombiezen.com/go/commonmark.InlineParser).Rewrite": true,
	"(zombiezen.com/go/commonmark.ReferenceMap).Extract": true, "(zombiezen.com/go/commonmark.ReferenceMap).MatchReference": true,
}

type fn struct {
	name  string
	decl  *ast.FuncDecl
	pkg   *packages.Package
	calls map[string]bool
}

func funcName(f *types.Func) string {
	return f.FullName()
}

func main() {
	repo, out := os.Args[1], os.Args[2]
	cfg := &packages.Config{Mode: packages.LoadAllSyntax, Dir: repo}
	pkgs, err := packages.Load(cfg, ".", "./format")
	if err != nil || len(pkgs) == 0 {
		fmt.Println("load error", err)
		os.Exit(1)
	}
	for _, p := range pkgs {
		if len(p.Errors) > 0 {
			fmt.Println("package errors", p.Errors)
			os.Exit(1)
		}
	}
	funcs := map[string]*fn{}
	globals := map[types.Object]bool{}
	methodsByName := map[string][]string{}
	for _, p := range pkgs {
		for _, n := range p.Types.Scope().Names() {
			if v, ok := p.Types.Scope().Lookup(n).(*types.Var); ok {
				globals[v] = true
			}
		}
		for _, f := range p.Syntax {
			if strings.HasSuffix(p.Fset.Position(f.Pos()).Filename, "export_verif.go") {
				continue
			}
			for _, d := range f.Decls {
				fd, ok := d.(*ast.FuncDecl)
				if !ok || fd.Body == nil {
					continue
				}
				obj := p.TypesInfo.Defs[fd.Name].(*types.Func)
				fn := &fn{name: funcName(obj), decl: fd, pkg: p, calls: map[string]bool{}}
				funcs[fn.name] = fn
				if fd.Recv != nil {
					methodsByName[fd.Name.Name] = append(methodsByName[fd.Name.Name], fn.name)
				}
			}
		}
	}
	// package-level function tables: every function literal in a package-level var initialiser is its own root,
	// reachable from any function that mentions the variable
	type lit struct {
		pkg  *packages.Package
		body *ast.BlockStmt
		name string
	}
	varLits := map[types.Object][]string{}
	for _, p := range pkgs {
		for _, f := range p.Syntax {
			for _, d := range f.Decls {
				gd, ok := d.(*ast.GenDecl)
				if !ok || gd.Tok != token.VAR {
					continue
				}
				for _, sp := range gd.Specs {
					vs := sp.(*ast.ValueSpec)
					for i, id := range vs.Names {
						if i >= len(vs.Values) {
							continue
						}
						obj := p.TypesInfo.Defs[id]
						k := 0
						ast.Inspect(vs.Values[i], func(n ast.Node) bool {
							if fl, ok := n.(*ast.FuncLit); ok {
								name := fmt.Sprintf("%s.%s$lit%d", p.PkgPath, id.Name, k)
								k++
								funcs[name] = &fn{name: name, decl: &ast.FuncDecl{Name: ast.NewIdent(name), Type: fl.Type, Body: fl.Body}, pkg: p, calls: map[string]bool{}}
								varLits[obj] = append(varLits[obj], name)
								return false
							}
							return true
						})
					}
				}
			}
		}
	}
	// call edges
	for _, f := range funcs {
		info := f.pkg.TypesInfo
		ast.Inspect(f.decl.Body, func(n ast.Node) bool {
			switch x := n.(type) {
			case *ast.Ident:
				if obj := info.Uses[x]; obj != nil {
					if fo, ok := obj.(*types.Func); ok {
						f.calls[funcName(fo)] = true
						// interface method: all methods with that name
						if sig, ok := fo.Type().(*types.Signature); ok && sig.Recv() != nil {
							if _, isIface := sig.Recv().Type().Underlying().(*types.Interface); isIface {
								for _, m := range methodsByName[fo.Name()] {
									f.calls[m] = true
								}
							}
						}
					}
					if ls, ok := varLits[obj]; ok {
						for _, l := range ls {
							f.calls[l] = true
						}
					}
				}
			}
			return true
		})
	}
	reach := func(entries map[string]bool) map[string]bool {
		seen := map[string]bool{}
		var stack []string
		for e := range entries {
			if funcs[e] != nil {
				stack = append(stack, e)
			}
		}
		for len(stack) > 0 {
			n := stack[len(stack)-1]
			stack = stack[:len(stack)-1]
			if seen[n] {
				continue
			}
			seen[n] = true
			for c := range funcs[n].calls {
				if funcs[c] != nil && !seen[c] {
					stack = append(stack, c)
				}
			}
		}
		return seen
	}
	ro := reach(readOnlyEntries)
	all := map[string]bool{}
	for k := range readOnlyEntries {
		all[k] = true
	}
	for k := range parseEntries {
		all[k] = true
	}
	any := reach(all)
	missing := []string{}
	for e := range all {
		if funcs[e] == nil {
			missing = append(missing, e)
		}
	}
	var globalW, sharedW []string
	isShared := func(t types.Type) bool {
		for {
			if p, ok := t.(*types.Pointer); ok {
				t = p.Elem()
				continue
			}
			break
		}
		if n, ok := t.(*types.Named); ok && sharedTypeNames[n.Obj().Name()] && strings.HasPrefix(n.Obj().Pkg().Path(), "zombiezen.com/go/commonmark") {
			return true
		}
		return false
	}
	for name, f := range funcs {
		if !any[name] {
			continue
		}
		info := f.pkg.TypesInfo
		fset := f.pkg.Fset
		// locals allocated here: x := &T{...} / x := T{...} / new(T) / var x T
		fresh := map[types.Object]bool{}
		ast.Inspect(f.decl.Body, func(n ast.Node) bool {
			switch s := n.(type) {
			case *ast.AssignStmt:
				if s.Tok == token.DEFINE {
					for i, l := range s.Lhs {
						id, ok := l.(*ast.Ident)
						if !ok || i >= len(s.Rhs) {
							continue
						}
						r := s.Rhs[i]
						if u, ok := r.(*ast.UnaryExpr); ok && u.Op == token.AND {
							r = u.X
						}
						switch rr := r.(type) {
						case *ast.CompositeLit:
							fresh[info.Defs[id]] = true
						case *ast.CallExpr:
							if fid, ok := rr.Fun.(*ast.Ident); ok && (fid.Name == "new" || fid.Name == "make") {
								fresh[info.Defs[id]] = true
							}
						}
					}
				}
			case *ast.DeclStmt:
				if gd, ok := s.Decl.(*ast.GenDecl); ok && gd.Tok == token.VAR {
					for _, sp := range gd.Specs {
						for _, id := range sp.(*ast.ValueSpec).Names {
							fresh[info.Defs[id]] = true
						}
					}
				}
			}
			return true
		})
		check := func(e ast.Expr, what string) {
			// walk down to the root, noting shared-typed bases
			throughShared := false
			cur := e
			first := true
			for {
				switch x := cur.(type) {
				case *ast.SelectorExpr:
					if tv, ok := info.Types[x.X]; ok && isShared(tv.Type) {
						throughShared = true
					}
					// promoted field: the implicit path may run through an embedded shared value (e.g. renderState embeds *HTMLRenderer)
					if sel := info.Selections[x]; sel != nil && len(sel.Index()) > 1 {
						t := sel.Recv()
						for _, ix := range sel.Index()[:len(sel.Index())-1] {
							for {
								if p, ok := t.Underlying().(*types.Pointer); ok {
									t = p.Elem()
									continue
								}
								break
							}
							st, ok := t.Underlying().(*types.Struct)
							if !ok || ix >= st.NumFields() {
								break
							}
							t = st.Field(ix).Type()
							if isShared(t) {
								throughShared = true
							}
						}
					}
					cur = x.X
					first = false
					continue
				case *ast.IndexExpr:
					if tv, ok := info.Types[x.X]; ok && isShared(tv.Type) {
						throughShared = true
					}
					cur = x.X
					first = false
					continue
				case *ast.StarExpr:
					if tv, ok := info.Types[x.X]; ok && isShared(tv.Type) {
						throughShared = true
					}
					cur = x.X
					first = false
					continue
				case *ast.ParenExpr:
					cur = x.X
					continue
				case *ast.CallExpr:
					// store through the result of a call, e.g. c.Node().Block().f = v
					if tv, ok := info.Types[x]; ok && isShared(tv.Type) && !first {
						throughShared = true
					}
				}
				break
			}
			pos := fset.Position(e.Pos())
			loc := fmt.Sprintf("%s:%d %s in %s", shortFile(pos.Filename), pos.Line, what, name)
			if id, ok := cur.(*ast.Ident); ok {
				obj := info.Uses[id]
				if obj == nil {
					obj = info.Defs[id]
				}
				if obj != nil && globals[obj] {
					globalW = append(globalW, loc)
					return
				}
				if first {
					return // plain local variable assignment
				}
				if throughShared && ro[name] && !fresh[obj] {
					sharedW = append(sharedW, loc)
				}
				return
			}
			if throughShared && ro[name] {
				sharedW = append(sharedW, loc)
			}
		}
		ast.Inspect(f.decl.Body, func(n ast.Node) bool {
			switch s := n.(type) {
			case *ast.AssignStmt:
				if s.Tok == token.DEFINE {
					return true
				}
				for _, l := range s.Lhs {
					check(l, "assignment")
				}
			case *ast.IncDecStmt:
				check(s.X, "inc/dec")
			case *ast.CallExpr:
				// the address of a field reached through a shared value passed to a call (e.g. as a scratch buffer):
				// the callee can store through it, so it counts as a store
				for _, a := range s.Args {
					if u, ok := a.(*ast.UnaryExpr); ok && u.Op == token.AND {
						if _, isSel := u.X.(*ast.SelectorExpr); isSel {
							check(u.X, "address passed to a call")
						}
					}
				}
				if id, ok := s.Fun.(*ast.Ident); ok && (id.Name == "copy" || id.Name == "delete" || id.Name == "clear") && len(s.Args) > 0 {
					if _, isBuiltin := info.Uses[id].(*types.Builtin); isBuiltin {
						arg := s.Args[0]
						if se, ok := arg.(*ast.SliceExpr); ok {
							arg = se.X
						}
						// copy into x[...] is a store into x's elements
						check(&ast.IndexExpr{X: arg, Index: ast.NewIdent("_"), Lbrack: arg.Pos()}, id.Name)
					}
				}
			}
			return true
		})
	}
	sort.Strings(globalW)
	sort.Strings(sharedW)
	sort.Strings(missing)
	var sb strings.Builder
	sb.WriteString("From Coq Require Import List String. Import ListNotations. Open Scope string_scope.\n")
	sb.WriteString("(* GENERATED from /repo's typed AST by go/eff: write effects relevant to C19 *)\n")
	w := func(name string, l []string) {
		sb.WriteString("Definition " + name + " : list string := [")
		for i, s := range l {
			if i > 0 {
				sb.WriteString("; ")
			}
			sb.WriteString("\"" + strings.ReplaceAll(s, "\"", "'") + "\"")
		}
		sb.WriteString("].\n")
	}
	w("global_writes", globalW)
	w("shared_writes", sharedW)
	w("missing_entry_points", missing)
	sb.WriteString(fmt.Sprintf("Definition functions_reachable_readonly : nat := %d.\nDefinition functions_reachable : nat := %d.\n", len(ro), len(any)))
	if err := os.WriteFile(out, []byte(sb.String()), 0o644); err != nil {
		fmt.Println(err)
		os.Exit(1)
	}
	fmt.Printf("reachable %d (read-only side %d); global writes %d, shared writes %d, missing entries %d\n", len(any), len(ro), len(globalW), len(sharedW), len(missing))
	for _, s := range append(append([]string{}, globalW...), sharedW...) {
		fmt.Println("  ", s)
	}
}

func shortFile(p string) string {
	if i := strings.LastIndex(p, "/"); i >= 0 {
		return p[i+1:]
	}
	return p
}
