"""Rebuild everything a check needs from /repo's current working tree.

Steps (all output under /verif/work, serialised by a lock, skipped when nothing changed):
  1. go build -tags verif of the harness (and the generator) against /repo
  2. run the generator: coq/main/Tables.v and coq/tie/Gen*.v are rewritten only when their
     content changes
  3. make -k in every Coq family (full .vo build)
  4. extraction of the model to OCaml and build of the model-side driver
The result is a status dictionary saved as work/build_status.json.
"""
import fcntl, hashlib, json, os, re, shutil, subprocess, sys, time, glob

VERIF = os.path.dirname(os.path.dirname(os.path.abspath(__file__)))
REPO = os.environ.get("VERIF_REPO", "/repo")
WORK = os.path.join(VERIF, "work")
BIN = os.path.join(WORK, "bin")
COQ = os.path.join(VERIF, "coq")
FAMILIES = ["main", "walk", "emph", "stream", "filter", "recog", "misc"]
NOT_IN_PROJECT = {"Extract.v", "ExtractW.v", "ExtractR.v", "ExtractF.v"}

GOENV = dict(os.environ, GOFLAGS="-mod=mod", GOPROXY="off", GOSUMDB="off", GOTOOLCHAIN="local",
             GOCACHE=os.environ.get("GOCACHE", os.path.join(WORK, "gocache")))


def sh(cmd, cwd=None, env=None, timeout=3600, log=None):
    p = subprocess.run(cmd, cwd=cwd, env=env, shell=isinstance(cmd, str), stdout=subprocess.PIPE,
                       stderr=subprocess.STDOUT, timeout=timeout)
    out = p.stdout.decode("utf-8", "replace")
    if log:
        with open(log, "w") as f:
            f.write(out)
    return p.returncode, out


def file_hash(paths):
    h = hashlib.sha256()
    for p in sorted(paths):
        h.update(p.encode())
        try:
            with open(p, "rb") as f:
                h.update(hashlib.sha256(f.read()).digest())
        except OSError:
            h.update(b"missing")
    return h.hexdigest()


def repo_files():
    out = []
    for root, dirs, files in os.walk(REPO):
        dirs[:] = [d for d in dirs if d not in (".git", "testdata", "nix")]
        for f in files:
            if f.endswith(".go") and not f.endswith("_test.go") or f in ("go.mod", "go.sum"):
                out.append(os.path.join(root, f))
    return out


def verif_files():
    out = []
    for sub in ("go", "ocaml"):
        for root, dirs, files in os.walk(os.path.join(VERIF, sub)):
            for f in files:
                if f.endswith((".go", ".ml", ".mod")):
                    out.append(os.path.join(root, f))
    for fam in FAMILIES:
        for f in glob.glob(os.path.join(COQ, fam, "*.v")):
            b = os.path.basename(f)
            if b == "Tables.v" or b.startswith("Gen") or (fam == "main" and b in ("Emph.v", "EmphProof.v")):
                continue
            out.append(f)
    return out


def write_if_changed(path, content):
    try:
        with open(path) as f:
            if f.read() == content:
                return False
    except OSError:
        pass
    with open(path, "w") as f:
        f.write(content)
    return True


def coq_project(fam):
    d = os.path.join(COQ, fam)
    if fam == "main":
        # the emphasis slice (EmphSpec ... EmphSlice) is stated against the abstract procedure of the emph family:
        # the two files are copied, never edited, so that main proves its theorems about that very definition
        for b in ("Emph.v", "EmphProof.v"):
            write_if_changed(os.path.join(d, b), open(os.path.join(COQ, "emph", b)).read())
    vs = sorted(os.path.basename(f) for f in glob.glob(os.path.join(d, "*.v")) if os.path.basename(f) not in NOT_IN_PROJECT)
    changed = write_if_changed(os.path.join(d, "_CoqProject"), '-Q . ""\n' + "\n".join(vs) + "\n")
    if changed or not os.path.exists(os.path.join(d, "Makefile")):
        sh("coq_makefile -f _CoqProject -o Makefile", cwd=d)
    return vs


def strip_coq_comments(t):
    out, depth, i, n = [], 0, 0, len(t)
    instr = False
    while i < n:
        if depth == 0 and t[i] == '"':
            instr = not instr
            out.append(t[i]); i += 1
        elif not instr and t.startswith("(*", i):
            depth += 1; i += 2
        elif not instr and depth > 0 and t.startswith("*)", i):
            depth -= 1; i += 2
        else:
            if depth == 0:
                out.append(t[i])
            i += 1
    return "".join(out)


FORBIDDEN = re.compile(r"\b(Axiom|Axioms|Parameter|Parameters|Conjecture|Conjectures|Admitted|admit|give_up|Admit Obligations|Unset Guard Checking|"
                       r"Unset Positivity Checking|Unset Universe Checking|bypass_check|native_compute|Local Unset|type_in_type)\b")


def forbidden_scan():
    """no declared axiom, no open proof, no switched-off kernel check, no native_compute anywhere in the development
    (comments and strings excluded); Variable/Hypothesis only inside a Section"""
    bad = []
    for fam in list(FAMILIES) + ["slow"]:
        for f in sorted(glob.glob(os.path.join(COQ, fam, "*.v"))):
            t = strip_coq_comments(open(f, errors="replace").read())
            for m in FORBIDDEN.finditer(t):
                bad.append("%s/%s: %s" % (fam, os.path.basename(f), m.group(1)))
            depth = 0
            for line in t.split("\n"):
                ls = line.strip()
                if re.match(r"Section\b", ls):
                    depth += 1
                elif re.match(r"End\b", ls) and depth > 0:
                    depth -= 1
                elif depth == 0 and re.match(r"(Variable|Variables|Hypothesis|Hypotheses|Context)\b", ls):
                    bad.append("%s/%s: %s outside a section" % (fam, os.path.basename(f), ls.split()[0]))
    return bad


def build_coq(status):
    procs = {}
    for fam in FAMILIES:
        d = os.path.join(COQ, fam)
        if not os.path.isdir(d):
            continue
        vs = coq_project(fam)
        jobs = "12" if fam == "main" else "4"
        procs[fam] = (subprocess.Popen("timeout 3000 make -k -j%s" % jobs, cwd=d, shell=True, stdout=open(os.path.join(d, "build.log"), "w"),
                                       stderr=subprocess.STDOUT), vs)
    coq = {}
    for fam, (p, vs) in procs.items():
        rc = p.wait()
        d = os.path.join(COQ, fam)
        missing = []
        for v in vs:
            vo = os.path.join(d, v[:-2] + ".vo")
            if not os.path.exists(vo) or os.path.getmtime(vo) < os.path.getmtime(os.path.join(d, v)):
                missing.append(v[:-2])
        if rc != 0:
            # a failed file may leave a stale .vo behind, and so do the files that depend on it: find them
            import re
            log = open(os.path.join(d, "build.log")).read()
            failed = set(re.findall(r"\*\*\* \[Makefile[^\]]*?: (\S+?)\.vo\] Error", log)) | set(missing)
            if not failed:
                failed = set(v[:-2] for v in vs)      # make failed for a reason we cannot attribute: trust nothing
            rcd, dep = sh("coqdep -Q . '' " + " ".join(vs), cwd=d)
            deps = {}
            for line in dep.split("\n"):
                m = re.match(r"(\S+)\.vo .*?: (.*)", line)
                if m:
                    deps[m.group(1)] = set(x[:-3] for x in m.group(2).split() if x.endswith(".vo"))
            changed = True
            while changed:
                changed = False
                for f, ds in deps.items():
                    if f not in failed and ds & failed:
                        failed.add(f)
                        changed = True
            missing = sorted(failed)
        coq[fam] = {"rc": rc, "missing": missing, "files": len(vs)}
    status["coq"] = coq


def extract_closure(d, top):
    """modules (without .v) that `top` transitively requires, from coqdep"""
    import re
    vs = sorted(os.path.basename(f) for f in glob.glob(os.path.join(d, "*.v")))
    rc, dep = sh("coqdep -Q . '' " + " ".join(vs), cwd=d)
    deps = {}
    for line in dep.split("\n"):
        m = re.match(r"(\S+)\.vo .*?: (.*)", line)
        if m:
            deps[m.group(1)] = set(x[:-3] for x in m.group(2).split() if x.endswith(".vo"))
    seen, stack = set(), [top[:-2]]
    while stack:
        n = stack.pop()
        for x in deps.get(n, ()):
            if x not in seen:
                seen.add(x)
                stack.append(x)
    return seen


def prepare(force=False, verbose=False):
    os.makedirs(BIN, exist_ok=True)
    lock = open(os.path.join(WORK, ".lock"), "w")
    fcntl.flock(lock, fcntl.LOCK_EX)
    try:
        key = file_hash(repo_files() + verif_files())
        spath = os.path.join(WORK, "build_status.json")
        if not force and os.path.exists(spath):
            st = json.load(open(spath))
            if st.get("key") == key and all(os.path.exists(os.path.join(BIN, b)) for b in ("harness", "drv", "drvwalk", "drvrecog", "drvfilter")):
                st["cached"] = True
                return st
        t0 = time.time()
        status = {"key": key, "cached": False, "errors": []}
        godir = os.path.join(VERIF, "go")
        shutil.copy(os.path.join(REPO, "go.sum"), os.path.join(godir, "go.sum"))
        shutil.copy(os.path.join(REPO, "go.sum"), os.path.join(godir, "go.sum"))
        rc, out = sh("go build -tags verif -o %s/harness ./harness && go build -o %s/gen ./gen && (cd eff && go build -o %s/eff .)" % (BIN, BIN, BIN), cwd=godir, env=GOENV,
                     log=os.path.join(WORK, "gobuild.log"))
        status["go_build"] = rc
        if rc != 0:
            status["errors"].append("go build failed: " + out[-2000:])
            try:
                os.remove(os.path.join(BIN, "harness"))
            except OSError:
                pass
        # generator
        tiedir = os.path.join(COQ, "main")
        gen_tmp = os.path.join(WORK, "gen")
        os.makedirs(gen_tmp, exist_ok=True)
        rc, out = sh([os.path.join(BIN, "gen"), os.path.join(gen_tmp, "Tables.v"), REPO, gen_tmp], env=GOENV, log=os.path.join(WORK, "gen.log"))
        status["gen"] = rc
        status["gen_changed"] = []
        if rc == 0:
            rc, out2 = sh([os.path.join(BIN, "eff"), REPO, os.path.join(gen_tmp, "GenEffects.v")], env=GOENV, log=os.path.join(WORK, "eff.log"))
            out += out2
            status["eff"] = out2.strip().split("\n")[:12]
        if rc != 0:
            status["errors"].append("generator failed: " + out[-2000:])
        else:
            for f in sorted(os.listdir(gen_tmp)):
                dst = os.path.join(tiedir, f)
                if write_if_changed(dst, open(os.path.join(gen_tmp, f)).read()):
                    status["gen_changed"].append(f)
        bad = forbidden_scan()
        status["forbidden"] = bad
        if bad:
            status["errors"].append("forbidden constructs in the Coq development: " + "; ".join(bad[:10]))
        build_coq(status)
        # extraction + driver
        odir = os.path.join(WORK, "ocaml")
        os.makedirs(odir, exist_ok=True)
        # the driver needs only the files Extract.v depends on (not the proofs, not the ties)
        need = extract_closure(os.path.join(COQ, "main"), "Extract.v")
        blocked = sorted(set(status["coq"]["main"]["missing"]) & need)
        if not blocked:
            rc, out = sh("timeout 600 coqc -Q %s '' %s" % (os.path.join(COQ, "main"), os.path.join(COQ, "main", "Extract.v")), cwd=odir,
                         log=os.path.join(WORK, "extract.log"))
            if rc == 0:
                shutil.copy(os.path.join(VERIF, "ocaml", "drv.ml"), os.path.join(odir, "drv.ml"))
                rc, out = sh("ocamlfind ocamlopt -O3 -w -a -package str model.mli model.ml drv.ml -o %s/drv" % BIN, cwd=odir,
                             log=os.path.join(WORK, "ocaml.log"))
            status["driver"] = rc
            if rc != 0:
                status["errors"].append("extraction/driver build failed: " + out[-2000:])
        else:
            status["driver"] = 1
            status["errors"].append("model does not compile: " + ",".join(blocked))
        # walk model driver (C18)
        wdir = os.path.join(WORK, "ocamlw")
        os.makedirs(wdir, exist_ok=True)
        if not status["coq"]["walk"]["missing"]:
            rc, out = sh("timeout 600 coqc -Q %s '' %s" % (os.path.join(COQ, "walk"), os.path.join(COQ, "walk", "ExtractW.v")), cwd=wdir,
                         log=os.path.join(WORK, "extractw.log"))
            if rc == 0:
                shutil.copy(os.path.join(VERIF, "ocaml", "drvwalk.ml"), os.path.join(wdir, "drvwalk.ml"))
                rc, out = sh("ocamlfind ocamlopt -O3 -w -a walkmodel.mli walkmodel.ml drvwalk.ml -o %s/drvwalk" % BIN, cwd=wdir,
                             log=os.path.join(WORK, "ocamlw.log"))
            status["driver_walk"] = rc
            if rc != 0:
                status["errors"].append("walk extraction/driver build failed: " + out[-2000:])
        else:
            status["driver_walk"] = 1
            status["errors"].append("walk model does not compile: " + ",".join(status["coq"]["walk"]["missing"]))
        # drivers for the recognizer and filter families
        for fam, ext, ml, exe in (("recog", "ExtractR.v", "recogmodel", "drvrecog"), ("filter", "ExtractF.v", "filtermodel", "drvfilter")):
            xdir = os.path.join(WORK, "ocaml_" + fam)
            os.makedirs(xdir, exist_ok=True)
            rc = 1
            if not status["coq"][fam]["missing"]:
                rc, out = sh("timeout 600 coqc -Q %s '' %s" % (os.path.join(COQ, fam), os.path.join(COQ, fam, ext)), cwd=xdir)
                if rc == 0:
                    shutil.copy(os.path.join(VERIF, "ocaml", exe + ".ml"), os.path.join(xdir, exe + ".ml"))
                    rc, out = sh("ocamlfind ocamlopt -O3 -w -a %s.mli %s.ml %s.ml -o %s/%s" % (ml, ml, exe, BIN, exe), cwd=xdir)
                if rc != 0:
                    status["errors"].append("%s extraction/driver build failed: %s" % (fam, out[-1500:]))
            else:
                status["errors"].append("%s model does not compile: %s" % (fam, ",".join(status["coq"][fam]["missing"])))
            status["driver_" + fam] = rc
        status["build_s"] = round(time.time() - t0, 1)
        json.dump(status, open(spath, "w"), indent=1)
        return status
    finally:
        fcntl.flock(lock, fcntl.LOCK_UN)
        lock.close()


if __name__ == "__main__":
    st = prepare(force="--force" in sys.argv)
    print(json.dumps({k: v for k, v in st.items() if k != "key"}, indent=1))
    sys.exit(1 if st["errors"] else 0)
