"""Per-property check definitions (obligations, jobs = cases + correspondence + oracle)."""
import os, re, random, subprocess, itertools
import build, core, run, gen
from core import Check, Job

CHECKS = {}


def reg(c):
    CHECKS[c.prop] = c
    return c


def lines_of(cases):
    return [c.hex() + ("\t" + p if p else "") for c, p in cases]


def size(tier, quick, thorough, search=None):
    if tier == "thorough":
        return thorough
    if tier == "search":
        return search if search is not None else quick * 3
    return quick


def is_obs(x):
    return not x.startswith(("PANIC", "HANG", "CRASH", "BADHEX", "ERR"))


# ---- projections of the tree dump -------------------------------------------------------------
RE_B = re.compile(r"\(B (\d+) (-?\d+) (-?\d+) (-?\d+) (\d+) (\d+) (-?\d+)")
RE_I = re.compile(r"\(I (\d+) (-?\d+) (-?\d+) (-?\d+) ([0-9a-f]*)")
RE_R = re.compile(r"\(R (-?\d+) (-?\d+) (-?\d+) ([0-9a-f]*) ")
RE_REFS = re.compile(r" M(\([0-9a-f ]*\))*")


def strip_refs(d):
    return RE_REFS.sub("", d)


def proj_headers(d):
    return " ".join("%s:%s:%s:%s" % m for m in RE_R.findall(d)) + (" CODE" if " CODE" in d else "")


def proj_spans(d):
    d = strip_refs(d)
    d = RE_R.sub(lambda m: "(R %s " % m.group(4), d)
    d = RE_B.sub(lambda m: "(B %s %s" % (m.group(2), m.group(3)), d)
    d = RE_I.sub(lambda m: "(I %s %s" % (m.group(2), m.group(3)), d)
    return d


def proj_kinds(d):
    d = strip_refs(d)
    d = RE_R.sub("(R ", d)
    d = RE_B.sub(lambda m: "(B %s %s %s %s %s" % (m.group(1), m.group(4), m.group(5), m.group(6), m.group(7)), d)
    d = RE_I.sub(lambda m: "(I %s %s %s" % (m.group(1), m.group(4), m.group(5)), d)
    return d


def proj_kindspans(d):
    d = strip_refs(d)
    d = RE_R.sub(lambda m: "(R %s " % m.group(4), d)
    d = RE_B.sub(lambda m: "(B %s %s %s %s" % (m.group(1), m.group(2), m.group(3), m.group(4)), d)
    d = RE_I.sub(lambda m: "(I %s %s %s" % (m.group(1), m.group(2), m.group(3)), d)
    return d


RE_LEAF = re.compile(r"\((?:I \d+|B 12) (-?\d+) (-?\d+)[^()]*\)")


def proj_leaves(d):
    d = strip_refs(d)
    out = []
    for part in d.split("(R ")[1:]:
        out.append("R " + " ".join("%s-%s" % m for m in RE_LEAF.findall(part)))
    return " | ".join(out) + (" CODE" if " CODE" in d else "")


def proj_refs(d):
    """reference map + the reference of every link/image node"""
    m = RE_REFS.search(d)
    refs = m.group(0) if m else ""
    links = " ".join("%s:%s" % (k, r) for k, _, _, _, r in RE_I.findall(d) if k in ("9", "10", "13"))
    return refs + " | " + links


def proj_status(d):
    if d.startswith(("PANIC", "HANG", "CRASH")):
        return d.split(" ")[0]
    return "CODE" if " CODE" in d else "ok"


def ident(d):
    return d


def two_sided(impl_mode, model_mode, proj=ident, what="observation"):
    """correspondence: run both sides on the same lines and compare projected observations"""
    def f(cases):
        ls = lines_of(cases)
        a = run.harness(impl_mode, ls)
        b = run.model(model_mode, ls)
        out = []
        for i, (x, y) in enumerate(zip(a, b)):
            px = proj(x) if is_obs(x) else x
            py = proj(y)
            if px != py:
                out.append((i, px, py, what))
        return out
    return f


def tree_render_corr(which="html"):
    """renderer/formatter tie: the model renderer (formatter) run on the implementation's own tree dump
    must reproduce the implementation's bytes.  cases carry the configuration index as param."""
    def f(cases):
        ls = lines_of(cases)
        a = run.harness("treehtml", ls)
        m_in = []
        for x, (c, p) in zip(a, cases):
            parts = x.split("\t")
            m_in.append((parts[0] if len(parts) == 3 else "") + "\t" + (p or "0"))
        b = run.model("treehtml", m_in)
        out = []
        for i, (x, y) in enumerate(zip(a, b)):
            xp, yp = x.split("\t"), y.split("\t")
            if len(xp) != 3:
                out.append((i, x[:300], y[:300], "implementation did not produce a dump"))
                continue
            if len(yp) != 2:
                out.append((i, x[:300], y[:300], "model could not read the dump"))
                continue
            if which in ("html", "both") and xp[1] != yp[0]:
                out.append((i, xp[1], yp[0], "HTML of the implementation's tree (cfg %s)" % cases[i][1]))
            elif which in ("fmt", "both") and xp[2] != yp[1]:
                out.append((i, xp[2], yp[1], "Format output of the implementation's tree"))
        return out
    return f


DOC_RULE = ("documents: corpus (652 spec examples + recorded failures) first, then seeded token soup over Markdown "
            "fragments / corpus mutants / line soups (NUL, CR, CRLF, tabs, invalid UTF-8 mixed in); non-trivial = "
            "non-empty; distinct by (bytes, parameter)")


def docs(seed, tier, quick=3000, thorough=200000, **kw):
    return gen.docs(seed, size(tier, quick, thorough), **kw)


def statement_corr(prop):
    """the formal statement Cxx_statement of coq/main/Props.v (its boolean checker, extracted) evaluated on the
    implementation's own tree dump; a rejected tree is a violation of the property on that input"""
    def f(cases):
        ls = lines_of(cases)
        a = run.harness("full", ls)
        b = run.model("chk", [strip_refs(x) + "\t" + c.hex() for x, (c, _) in zip(a, cases)])
        out = []
        for i, (x, y) in enumerate(zip(a, b)):
            if not is_obs(x):
                out.append((i, x[:300], "", "implementation did not produce a tree"))
            elif ("%s=1" % prop) not in y:
                out.append((i, x[:1500], y, "Props.%s_statement's checker rejects the implementation's tree" % prop))
        return out
    return f


class TreeCheck(Check):
    rule = DOC_RULE
    proj = staticmethod(ident)
    what = "tree dump"

    def jobs(self, seed, tier):
        cases = [(d, "") for d in docs(seed, tier)]
        return [Job("documents", cases, corr=two_sided("full", "full", self.proj, self.what), judge_mode="judge:" + self.prop),
                Job("formal statement on the implementation's trees", cases, corr=statement_corr(self.prop), corr_is_spec=True)]


# ---- C01 -----------------------------------------------------------------------------------------
class C01(Check):
    rule = DOC_RULE
    obligations = [("main", "PropsFull", "C01_full"), ("main", "C01a", "C01_ordered"), ("main", "C01b", "unpadded_pad"), ("main", "C01b", "fill_pad"),
                   ("main", "C01b", "lineCount_pad"), ("main", "C01b", "pad_app"), ("main", "L2BndS", "parseBlocks_bounds"),
                   ("stream", "BPProof", "next_block_sim"), ("stream", "C08", "C08_stream_eq"), ("main", "Uncond", "parseStream_eq_small"),
                   ("main", "Uncond", "C01_tiling"), ("main", "Tiling", "C01_tiles_prefix"), ("main", "Tiling", "C01_of_total"), ("main", "Tiling", "C01_iff_rest_blank")]
    assumptions = ["aliasing of Source with the caller's buffer and non-modification of the buffer are memory facts: observed on the implementation by the oracle (pointer comparison, copy comparison), not proved",
                   "proved for every input (Uncond.C01_tiling = Props.C01_statement: the root blocks of parseBlocks tile the input: ordered, disjoint, inside the input, every gap and the rest after the last block blank, Source = the input range with each NUL replaced by U+FFFD, StartLine = 1 + number of line endings before the start with CRLF counted once, EndOffset - StartOffset = len Source when the input has no NUL); the same for the streaming entry point by parseStream_eq_small; the tie to parse.go is the correspondence of root-block headers through both entry points and the tiling oracle"]

    def jobs(self, seed, tier):
        cases = [(d, "") for d in docs(seed, tier, bad=0.1)]

        def corr(cases):
            ls = lines_of(cases)
            a, s, b = run.harness("full", ls), run.harness("blocks", ls), run.model("blocks", ls)
            out = []
            for i in range(len(ls)):
                pm = proj_headers(b[i])
                pa = proj_headers(a[i]) if is_obs(a[i]) else a[i]
                ps = proj_headers(s[i]) if is_obs(s[i]) else s[i]
                if pa != pm:
                    out.append((i, pa, pm, "root-block headers via Parse"))
                elif ps != pm:
                    out.append((i, ps, pm, "root-block headers via NextBlock"))
            return out
        sched = [(d, re.sub(r";fault=[^;]*", "", p)) for d, p in schedules(seed, [d for d, _ in cases[: max(600, len(cases) // 3)]])]
        return [Job("root-block headers", cases, corr=corr, judge_mode="judge:C01"),
                Job("formal statement on the implementation's trees", cases, corr=statement_corr("C01"), corr_is_spec=True),
                Job("streaming entry point under read schedules", sched, judge_mode="judge:C01",
                    corr=two_sided("stream", "stream", lambda d: proj_headers(d.split("\t")[0]), "root-block headers of the streaming run under the schedule (model: main/Stream.v)"))]


reg(C01("C01"))


class C02(TreeCheck):
    obligations = [("main", "PropsFull", "C02_full"), ("main", "L2BndS", "parseBlocks_bounds"), ("main", "C01a", "C01_ordered"), ("main", "NoPanicAll", "parseBlocks_no_panic"),
                   ("main", "BlockSpans", "parseBlocks_block_spans"), ("main", "BlockSpans", "parseFull_block_spans"),
                   ("main", "InlineSpans", "parseInlines_spans"), ("main", "InlineSpans", "parseInlines_spans_reduction"), ("main", "InlineSpans", "parseInlines_spans_literal_false"),
                   ("main", "SpanHyp", "entriesOKX_eq"), ("main", "SpanHyp", "rewrite_roots_inline_spans"), ("main", "EntriesOK", "parseBlocks_entries_basic"), ("main", "C02Full", "C02_full"), ("main", "C02Full", "C02_structure"), ("main", "RootIndentDrv", "rootIndent_all"), ("main", "C02Structure", "C02_of_rootIndent_and_boundaries"), ("main", "C02Structure", "C02_structure_rootIndent_partial"), ("main", "DefSpans", "defSpans_all"), ("main", "C02Boundaries", "C02_boundaries"), ("main", "C02Boundaries", "C02_boundaries_strong"), ("main", "C02Boundaries", "C02_of_structure"), ("main", "ComposeC02", "C02_of_structure_and_boundaries"), ("main", "ComposeC02", "C02_structure_partial"), ("main", "ComposeSpans2", "parseBlocks_inline_spans"), ("main", "ComposeSpans2", "parseBlocks_entriesOKroots"), ("main", "ComposeSpans2", "parseBlocks_paraTail"), ("main", "ComposeSpans", "parseBlocks_inline_spans_partial"), ("main", "ComposeSpans", "parseBlocks_entriesOKroots_partial"), ("main", "Total", "parseBlocks_total")]
    proj = staticmethod(proj_spans)
    what = "span structure"

    def jobs(self, seed, tier):
        js = TreeCheck.jobs(self, seed, tier)

        def hyp(cases):
            a = run.harness("blocks", lines_of(cases))
            b = run.model("entriesok", [strip_refs(x) for x in a])
            return [(i, a[i][:500], b[i], "hypothesis entriesOKroots of SpanHyp.rewrite_roots_inline_spans on the implementation's pre-inline tree")
                    for i in range(len(a)) if is_obs(a[i]) and b[i] != "1"]
        js.append(Job("entry conditions of the inline-span theorem on the implementation's pre-inline trees", js[0].cases, corr=hyp))
        return js
    assumptions = ["full on the model: C02Full.C02_full = Props.C02_statement: for every input and every root block of parseFull, the root's block ends at the end of its Source and is preceded only by spaces/tabs, every block and inline span is valid, lies inside its parent, siblings are ordered and disjoint, and for valid UTF-8 input every span boundary lies on a character boundary; composed from BlockSpans, InlineSpans/SpanHyp/ComposeSpans2, C13All, DefSpans, RootIndentDrv and C02Boundaries", "the parts: proved for every input: every block span is valid, lies inside its parent and consecutive block children are ordered and disjoint, root starts are non-negative (parseFull_block_spans), and the ends of blocks and inline entries are bounded by the line read so far; inline level: for every leaf block whose entry list satisfies the executable condition entriesOK (entries valid, ordered, inside the block; only Unparsed/Indent entries; Indent entries one byte wide and at most 3 columns; every entry but the last non-empty and ending in a line ending; the byte after the last entry is blank or past the source), every inline node produced by parseInlines (after emphasis processing and link surgery) has a valid span inside its parent, siblings ordered and disjoint (InlineSpans.parseInlines_spans, lifted to everything Rewrite does to a root block in SpanHyp.rewrite_roots_inline_spans); the run evaluates that condition on the implementation's own pre-inline trees, so the theorem applies to each of them given the tie of the inline parser; for arbitrary (adversarial) entry lists the statement is false, witness proved (parseInlines_spans_literal_false); the proof found defect D23 (a Text child past its LinkDestination parent), repaired in /repo (8f64b82); that the block layer always produces entriesOK entry lists is proved for every input (ComposeSpans2.parseBlocks_entriesOKroots), so for every input and matcher every inline node produced by Rewrite has a valid span inside its parent with ordered, disjoint siblings (ComposeSpans2.parseBlocks_inline_spans): the span-structure part of the property holds at both levels for every input; the character-boundary clause is proved for every valid UTF-8 input (C02Boundaries.C02_boundaries: every span boundary of every block and inline node, definition parts and info-string children included, is a UTF-8 boundary of the root's Source); the two residual facts of ComposeC02 are proved for every input (DefSpans.defSpans_all: order of a definition's parts; RootIndentDrv.rootIndent_all: only spaces/tabs before a root's block inside its Source); that and the character-boundary clause are decided by the correspondence, the span oracle and the formal statement evaluated on the implementation's trees"]


reg(C02("C02"))


class C03(TreeCheck):
    obligations = [("main", "PropsFull", "C03_full"), ("main", "ComposeC03", "C03_full"), ("main", "ComposeC03", "C03_partial"), ("main", "ComposeCols", "parseBlocks_colsOK"), ("main", "LinesAccounted", "no_duplication"), ("main", "LinesAccounted", "no_loss"), ("main", "LinesAccounted", "cover_le_one"), ("main", "LinesAccounted", "no_loss_raw_all"),
                   ("main", "LAFull", "C03_no_dup_partial"), ("main", "CoverInline", "parseInlines_coverage_partial"), ("main", "CoverInline", "parseInlines_C03"), ("main", "CoverInline", "parseInlines_coverage_refuted"), ("main", "CoverBlocks", "parseInlines_no_dup"), ("main", "L2BndS", "parseBlocks_bounds"), ("main", "NoUnpFull", "C05_noUnparsed")]
    proj = staticmethod(proj_leaves)
    what = "leaf spans"
    assumptions = ["full on the model: ComposeC03.C03_full = Props.C03_statement: for every input and every root block of parseFull, no byte of Source is covered by two leaves and every letter, digit and non-ASCII byte is covered by exactly one leaf (an inline leaf or a list marker); composed from the block-layer accounting (LinesAccounted), the coverage and no-duplication theorems of the inline parser (CoverInline, LAFull) and the facts that the block layer's entry lists satisfy their hypotheses for every input (ComposeSpans2, ComposeCols, parseBlocks_leafKids)", "the parts: block layer, every input, no exception (LinesAccounted.no_duplication / no_loss): the inline entries of leaf blocks, the label/destination/title children of definitions and the list markers are pairwise disjoint and ordered, and every letter, digit or non-ASCII byte of every root's Source lies in exactly one of them: everything the block layer drops (markers, fences, closing sequences, underlines, blank lines, the punctuation of a definition) is non-textual", "after the inline pass: no byte is covered by two leaves (LAFull.C03_no_dup_partial, first conjunct of Props.chk_C03_root for every position) under the executable entry condition that the C02 check evaluates on the implementation's pre-inline trees; through the inline parser: for every leaf block meeting the entry condition and the executable column bound colsOK (the Indent entries stand for at most len src + 8 columns: true of every block-layer output, at most 3 columns per line), every textual byte of every Unparsed entry lies in exactly one leaf of parseInlines — emphasis, code spans, links and images, labels, raw HTML, autolinks, entities included (CoverInline.parseInlines_coverage_partial / parseInlines_C03); without the column bound the statement is false on the MODEL only (parseInlines_coverage_refuted: 20 consecutive 3-column Indent entries exhaust the model's reader fuel; Go has no such bound and no block-layer output looks like that); what is not proved is the composition into Props.C03_statement for whole documents (colsOK and the entry condition for every input): decided by the correspondence, the coverage oracle and the formal statement evaluated on the implementation's trees"]


reg(C03("C03"))


class C05(TreeCheck):
    obligations = [("main", "PropsFull", "C05_full"), ("main", "C05Full", "C05_full"), ("main", "C05c", "parseBlocks_np"), ("main", "ComposeGram", "parseFull_gramI"), ("main", "ComposeGram", "parseFull_gramI_statement_proved"), ("main", "ComposeGram", "parseBlocks_entOKDoc"), ("main", "InlineFuel", "C04_gramI_doc"), ("main", "InlineFuel", "C04_titleNeedsDest"), ("main", "GramInline", "parseFull_gramI_partial"), ("main", "GramInline", "parseFull_noLinkInLink"), ("main", "GramInline", "parseFull_kinds"), ("main", "GramInline", "parseFull_gramI_titleDest_partial"), ("main", "GIB", "parseBlocks_noMixed"), ("main", "TieKinds", "tie_kinds"), ("main", "L2CCfull", "parseFull_contain"), ("main", "L2Kind2", "parseBlocks_kinds"), ("main", "NoUnpFull", "C05_noUnparsed"),
                   ("main", "Clos12full", "C12_closure"), ("main", "Rec16", "ordered_number_range"),
                   ("main", "GramBlocks", "parseBlocks_gramBlocks"), ("main", "GramBlocks", "parseFull_gramBlocks")]
    proj = staticmethod(proj_kinds)
    what = "node kinds and accessor values"
    assumptions = ["full on the model: C05Full.C05_full = Props.C05_statement: for every input every root block of parseFull satisfies the whole grammar gramB (accessor agreement: heading levels, item numbers; lists, items, markers, quotes, definitions, paragraphs/headings with phrasing inlines only, code and HTML blocks with their verbatim leaf kinds, info string first and fenced only; the inline grammar gramI on the inline children of every block) and is neither a list item nor a list marker", "the parts: proved for every input: canContain closure, entry kinds per block kind, no Unparsed node, reference closure, item number range, and all block-level clauses of the grammar (parseFull_gramBlocks: every list item starts with exactly one marker, markers and thematic breaks are childless, a definition is [label; destination] or [label; destination; title], list/item agreement on ordered and on tight, heading levels 1-6 / 1-2); the inline-level clauses are proved for every input too (parseFull_gramI_partial: in every paragraph and heading only phrasing content; link/image tails nothing | [label] | [destination] | [destination][title]; reference links without destination/title; children of code spans, link parts, autolinks and HTML tags of the right kinds; childless leaves; no Unparsed node; parseFull_noLinkInLink: no link inside a link) and the last clause (a title always follows a destination) is now proved for every input as well (ComposeGram.parseFull_gramI = GramInline.parseFull_gramI_statement, from the fuel adequacy of the link scanner, InlineFuel, and the well-formedness of the block layer's entry lists, EntriesOK); the accessor agreement is decided by the correspondence, the grammar oracle and the formal statement evaluated on the implementation's trees"]

    def jobs(self, seed, tier):
        js = TreeCheck.jobs(self, seed, tier)
        cases = js[0].cases[: max(500, len(js[0].cases) // 4)]
        js.append(Job("streaming + Extract + Rewrite", cases, corr=two_sided("fullstream", "full", proj_kinds, "kinds via NextBlock/Extract/Rewrite")))
        return js


reg(C05("C05"))


class C13(TreeCheck):
    obligations = [("main", "PropsFull", "C13_full"), ("main", "C13All", "C13_full"), ("main", "C13All", "exempt_all"), ("main", "C13Full", "C13_partial"), ("main", "C13Full", "C13_of_exempt"), ("main", "BlockShapesAll", "parseFull_block_shapes"), ("main", "BlockShapesAll", "parseBlocks_block_shapes"), ("main", "BlockShapes", "parseBlocks_block_shapes_partial"), ("main", "BlockShapes", "parseFull_block_shapes_partial"), ("main", "BlockShapes", "parseFull_block_shapes_prefill_partial"), ("main", "BlockShapesNul", "parseFull_block_shapes_aligned_partial"), ("main", "ShapesCS", "parseCodeSpan_shape"), ("main", "ShapesA", "parseAutolink_shape"), ("main", "ShapesA", "parseCharacterEscape_shape"), ("main", "ShapesA", "parseHardLineBreakSpace_hard_iff"), ("main", "ShapesHT", "parseHTMLTag_shape"), ("main", "ShapesA", "parseDelimiterRun_shape"), ("main", "ShapesComp3", "parseInlines_codespan_shapes_partial"), ("main", "ComposeShapes", "parseBlocks_inline_shapes"), ("main", "ComposeShapes", "parseBlocks_shapeHyp"), ("main", "InlineShapes", "parseInlines_shapes"), ("main", "ShapeHyp", "bikOKX'_eq"), ("main", "ShapeHyp", "rewrite_roots_inline_shapes"),
                   ("main", "EntriesOK", "parseBlocks_entries_ok_partial"), ("main", "EntriesOK", "parseFull_codespan_shapes"), ("main", "EntDefs", "parseBlocks_entries_ok_statement_false"), ("main", "Shapes", "hardbreak_line_shape"), ("main", "Shapes", "codespan_shapes_statement_false"), ("main", "Rec16", "parseListMarker_sound"), ("main", "Rec17", "parseCodeFence_sound"), ("recog", "ATXProof", "parseATXHeading_correct"),
                   ("main", "Rec15", "parseSetext_correct")]
    proj = staticmethod(proj_kindspans)
    what = "(kind, span) of every node"
    assumptions = ["full on the model: C13All.C13_full = Props.C13_statement: for every input every block and inline node of every root of parseFull has a valid span and the shape of its construct (list marker, ATX level, setext underline, fence, '>', code-span backticks, '<...>' of autolinks and tags, '&...;', hard-break suffix, emphasis delimiters, link/image brackets)", "the parts: for every input, Props.shapesB holds of every root of parseFull except on two kinds of entries (C13Full.C13_partial: every block node, every inline node of rewritten paragraphs and headings, all entries of indented code, HTML blocks and the text lines of fenced code have a valid span and the shape of their construct); the exempted entries are the info string of a fenced code block and the label / destination / title entries of a link reference definition, which C13All.exempt_all covers (a further whole-run invariant over the children of those entries); C13_of_exempt composes them; block shapes hold for every input, NUL included, with no alignment condition (BlockShapesAll.parseFull_block_shapes)", "block level (earlier, weaker forms): for every input without NUL bytes, every block node of every root has a valid span and the shape of its construct (list marker = bullet or 1-9 digits + '.'/')'; ATX heading starts with exactly its level of '#'; setext heading ends in its underline character; fenced code starts with its fence; block quote starts with '>') (parseFull_block_shapes_partial); for every input the same holds of the root's text before NUL filling (…_prefill_partial) and of the Source itself whenever the cut positions do not split a padded NUL (…_aligned_partial); that alignment for inputs with NUL is the open obligation shared with C01", "partial: scanner-level shape theorems for every kind of leaf-like construct (parseCodeSpan_shape: equal backtick runs; parseAutolink_shape, parseHTMLTag_shape: '<...>'; parseCharacterEscape_shape: '&...;'; parseHardLineBreakSpace_hard_iff; parseDelimiterRun_shape: copies of one of * or _) and, end to end through the whole inline parser, every CodeSpanKind node of parseInlines has the code-span shape for containers satisfying the executable condition bikOK (parseInlines_codespan_shapes_partial; without a condition the statement is false for arbitrary entry lists, witness proved); the recognizer theorems give the shape at creation for list markers, fences, ATX and setext lines", "inline level, all kinds and depths: for every leaf block whose entries satisfy the executable condition bikOK' (bikOK, childless Unparsed/RawHTML/Indent entries, line-ending bytes only as a suffix of each entry), every inline node of parseInlines has a valid span and the shape of its construct (InlineShapes.parseInlines_shapes = Props.shapesI; lifted to root blocks in ShapeHyp.rewrite_roots_inline_shapes); the run evaluates that condition on the implementation's own pre-inline trees; bikOK itself is proved of the block layer's output for every input except the empty entry of a content-less ATX heading (EntriesOK.parseBlocks_entries_ok_partial; the unrestricted statement is false, witness '#' proved), and code-span shapes are proved for every input outright (EntriesOK.parseFull_codespan_shapes); and the whole hypothesis is proved of the block layer's output for every input (ComposeShapes.parseBlocks_shapeHyp), hence for every input and matcher every inline node produced by Rewrite has a valid span and the shape of its construct (ComposeShapes.parseBlocks_inline_shapes)"]

    def jobs(self, seed, tier):
        js = TreeCheck.jobs(self, seed, tier)

        def hyp(cases):
            a = run.harness("blocks", lines_of(cases))
            b = run.model("shapehyp", [strip_refs(x) for x in a])
            return [(i, a[i][:500], b[i], "hypothesis shapeHypRoots of ShapeHyp.rewrite_roots_inline_shapes on the implementation's pre-inline tree")
                    for i in range(len(a)) if is_obs(a[i]) and b[i] != "1"]
        js.append(Job("entry conditions of the inline-shape theorem on the implementation's pre-inline trees", js[0].cases, corr=hyp))
        return js


reg(C13("C13"))


# ---- C04 -----------------------------------------------------------------------------------------
def hostile(seed, n):
    rng = random.Random(seed ^ 0x5a5a)
    out = []
    deep = [b"> " * 600 + b"a\n", b"- " * 400 + b"a\n", b"[" * 800 + b"a" + b"]" * 800, b"*" * 700 + b"a" + b"*" * 700, b"`" * 301 + b"a", b"<" * 500,
            b"1. " * 300 + b"x", b"![" * 500, b"\\" * 999, b"&" * 300 + b"#" * 300, b"<!--" + b"-" * 500, b"[a](" + b"(" * 300, b"_" * 500 + b"a" + b"_" * 499,
            b"```" + b"\n" * 100, b"\r" * 200, b"\x00" * 300, b"\t" * 300 + b"x", b"> " * 300 + b"```\n" + b"> " * 299 + b"x", (b"- a\n" + b"  " * 50) * 30]
    out += deep
    closers = [b"`", b"``", b"[", b"![", b"<", b"<!--", b"<![CDATA[", b"<?", b"(", b"[a](", b"[a](<", b"[a](/u \"", b"*", b"_", b"&", b"&#", b"\\", b"```", b"~~~", b"<a href=\"", b"[a]: ", b"[a]: /u \"", b"\r", b"\xc3", b"\xe2\x82", b"\xf0\x9f\x98"]
    while len(out) < n:
        body = gen.soup(rng, nmax=10, bad=0.2)
        out.append(body + rng.choice(closers))
    return out


class C04(Check):
    rule = DOC_RULE + "; plus hostile inputs: nesting hundreds deep, every construct left unterminated at end of input, invalid UTF-8, NUL and CR runs"
    obligations = [("main", "PropsFull", "C04_block_layer"), ("main", "InlineFuelAll", "parseFull_total"), ("main", "InlineFuelAll", "parseFull_fuel_adequate"), ("main", "InlineFuelAll", "parseFullG_eq"), ("main", "InlineFuel", "C04_parseInlines_all_fuels"), ("main", "InlineFuel", "C04_parseInlines_fuel_independent"), ("main", "InlineFuel", "C04_processEmphasis_adequate"), ("main", "InlineFuel", "C04_parseInlines_all_fuels_empty"), ("main", "EntriesOK", "parseBlocks_entries_ok_partial"), ("main", "Uncond", "C04_block_layer_total"), ("main", "Total", "parseBlocks_total"), ("main", "NoPanicAll", "parseBlocks_no_panic"), ("main", "RecBounds", "atx_bounds"), ("main", "CursorX", "consume_all"),
                   ("walk", "W2P", "run_refines_spec"), ("stream", "ReaderProof", "readline_sim"), ("misc", "Sticky", "C20_healthy")]
    assumptions = ["partial: proved: the block layer is total for every input (Total.parseBlocks_total: parseBlocks never reports a panic site and never runs out of any of its fuels: outer loop, line loop, descendOpenBlocks, openNewBlocks, codePoint reader), Walk terminates with fuel 2*size+1, readline terminates under any schedule, the renderer/formatter models are total by construction; the inline parser is total as well: for every input, every leaf the inline parser runs on and every matcher, running it with ANY fuels above explicit linear bounds gives the model's result, i.e. none of its fuels (reader loops, label normalisation, process-emphasis, tokeniser loop, entry loop, tree walks of Extract/Rewrite) is ever exhausted (InlineFuelAll.parseFull_fuel_adequate, parseFullG_eq, parseFull_total); so on the model the whole parse is total for every input; what remains observed rather than proved is that the Go loops terminate the way the fuelled model loops do (the tie), under the 20 s watchdog",
                   "'does not loop forever' on the implementation is a 20 s watchdog per case"]

    def jobs(self, seed, tier):
        cases = [(d, "") for d in docs(seed, tier, quick=1500, thorough=60000, bad=0.15)]
        hcases = [(d, "") for d in hostile(seed, size(tier, 400, 6000))]
        tcases = [(d, "") for d in gen.tab_nul_templates()]
        return [Job("documents", cases, corr=two_sided("full", "full", proj_status, "termination status"), judge_mode="judge:C04"),
                Job("hostile", hcases, corr=two_sided("full", "full", proj_status, "termination status"), judge_mode="judge:C04"),
                Job("tab / NUL templates in containers (exhaustive product)", tcases, corr=two_sided("full", "full", proj_status, "termination status"), judge_mode="judge:C04")]


reg(C04("C04"))


# ---- C07 -----------------------------------------------------------------------------------------
ATTR_TOKENS = [t.encode() for t in ["![", "[", "](", ")", "\"", "'", "<", ">", "&", "&amp;", "&quot;", "&#34;", "&#x3c;", "a", " ", "\n", "(/u \"", "(<", "\\\"", "`", "```", "~~~ \"<>&\n", "[a]: /u \"t\"\n",
                                         "[a]: <\"> '\"'\n", "[a]", "<http://x\"y>", "<a@b.c>", "onerror=", "=", "*", "_", "\\", "x\"y", "1. ", "9\" ", "\t", "> ", "# "]]


def attr_docs(seed, n):
    rng = random.Random(seed ^ 0xa77)
    return [gen.soup(rng, nmax=12, toks=ATTR_TOKENS) for _ in range(n)]


class C07(Check):
    rule = DOC_RULE + "; plus a soup weighted on quotes, angle brackets and ampersands in every text-bearing position (alt, title, destination, info string, label, code, autolink)"
    obligations = [("main", "C07final", "C07_final"), ("main", "SafeW", "C07_render_safeW"), ("main", "Safe", "C07_render_safe"), ("main", "L2BndS", "parseBlocks_bounds"),
                   ("main", "L2Kind", "parseBlocks_kinds"), ("main", "TieAtoms", "tie_atoms"), ("main", "TieAtoms", "render_atoms_in_vocab")]
    assumptions = ["the fixed vocabulary of the model (Safe.tagVocab ++ voidVocab) is tied to /repo's source on every run: the atom constants mentioned by preBlock/preInline, regenerated by go/gen, are exactly that vocabulary, and those of postBlock/postInline exactly its non-void part (TieAtoms.tie_atoms, render_atoms_in_vocab)",
                   "C07_final is the property's statement on the model for every input; C07_render_safeW covers every tree whose leaves satisfy bokW, and the run evaluates bokW on the implementation's own trees, so the theorem applies to each of them given the renderer tie",
                   "the oracle's grammar is stricter than the Coq predicate 'safe' (it also requires every '&' to head a character reference)"]

    def jobs(self, seed, tier):
        ds = docs(seed, tier, quick=2000, thorough=100000) + attr_docs(seed, size(tier, 1500, 60000))
        cases = [(d, str(i % 6)) for i, d in enumerate(ds)]

        def leaf(cases):
            ls = lines_of([(c, "") for c, _ in cases])
            a = run.harness("full", ls)
            b = run.model("leafok", [strip_refs(x) + "\t3" for x in a])
            return [(i, a[i][:500], b[i], "leaf hypothesis bokW of C07_render_safeW on the implementation's tree") for i in range(len(a)) if b[i] != "1"]
        return [Job("safe configurations", cases, corr=tree_render_corr("html"), judge_mode="judge:C07"),
                Job("leaf hypothesis", cases[: len(cases) // 2], corr=leaf)]


reg(C07("C07"))


# ---- C10 -----------------------------------------------------------------------------------------
class C10(Check):
    rule = DOC_RULE + "; each document under one of the 30 configurations (3 soft-break behaviours x IgnoreRaw x {nil, GFM, always, never, name set}) in rotation"
    obligations = [("main", "TieRender", "tie_render"), ("main", "TieAtoms", "tie_atoms"), ("main", "RenderWalkProof", "C10_appendBlock"), ("main", "WalkG", "walk_is_spec"), ("main", "C10misc", "render_refdef_empty"), ("main", "C10misc", "render_silent_inline"),
                   ("main", "Entry", "renderDoc_renderRoots")]
    assumptions = ["the independent reading of the tree is the structural renderer renderB of the model (one clause per kind, accessor models); C10_appendBlock proves that Walk with the renderer's callbacks equals it; the run applies it to the implementation's own tree dump",
                   "determinism, tree/Source untouched, block joining and empty output for definitions are observed on the implementation by the oracle (pure model cannot exhibit mutation)"]

    def jobs(self, seed, tier):
        ds = docs(seed, tier, quick=3000, thorough=150000) + raw_docs(seed, size(tier, 1500, 50000))
        cases = [(d, str((i * 7 + seed) % 30)) for i, d in enumerate(ds)]
        return [Job("tree -> HTML", cases, corr=tree_render_corr("html"), judge_mode="judge:C10", corr_is_spec=True)]


reg(C10("C10"))


# ---- C20 -----------------------------------------------------------------------------------------
class C20(Check):
    rule = DOC_RULE + "; writer failing at every call index up to 40 (first clause); canonical-style documents from the abstract-document generator (second clause)"
    obligations = [("misc", "Sticky", "C20_sticky"), ("misc", "Sticky", "C20_first_error"), ("misc", "Sticky", "C20_healthy"), ("main", "Entry", "formatDoc_formatRoots"),
                   ("main", "SliceFormat2", "C20_blocks"), ("main", "SliceFormat2", "C20_code_refuted"), ("main", "SliceParas", "C20_paras_format"), ("main", "SliceFormat", "C20_format_preserves_render"), ("main", "SliceFormat", "C20_format_idempotent"), ("main", "SliceFormat", "formatDoc_text")]
    assumptions = ["clause 1 proved on the formatWriter model for any operation sequence; clause 2 is proved end to end on multi-block documents (SliceFormat2.C20_blocks: any number, in any order, of one-line text paragraphs, ATX headings 1-6, thematic breaks and backtick-fenced code blocks whose lines are free of LF, CR, NUL and TAB and do not close the fence: formatDoc has the stated output, preserves the rendering in every configuration without tag filter, and is idempotent); with a TAB after a backtick run inside code the two equations are false (C20_code_refuted: the formatter's fence-length scan does not treat run + TAB as fence-like while the parser accepts trailing tabs after a closing fence; confirmed on the implementation; tabs are outside the canonical style fixed in DESIGN.md section 7, so this is recorded as an observation, not as a finding of the property); earlier, on one paragraph (SliceFormat.C20_format_preserves_render / C20_format_idempotent: for every one-line text paragraph of any length, formatting preserves the rendering and is idempotent, with no side condition since repair 1fffec0: the proof attempt found defect D25); on the rest of the construct set fixed in DESIGN.md section 7 it is decided by the oracle on generated canonical documents",
                   "determinism and 'tree untouched' are observed on the implementation"]

    def jobs(self, seed, tier):
        import docgen
        ds = docs(seed, tier, quick=1500, thorough=60000)
        cases = [(d, "0") for d in ds]
        canon = [(md, "") for md, _ in docgen.documents(seed, size(tier, 800, 30000), style="format")]
        return [Job("format of the implementation's tree", cases, corr=tree_render_corr("fmt"), judge_mode="judge:C20"),
                Job("canonical documents round trip", canon, judge_mode="judge:C20rt", shrinkable=False, mutate=lambda rng, c: c)]


reg(C20("C20"))


# ---- C17 -----------------------------------------------------------------------------------------
RAW_TOKENS = [t.encode() for t in ["<", ">", "</", "/>", "<script>", "</script>", "<SCRIPT ", "<sCript\n", "<style>", "<title>", "<textarea>", "<xmp>", "<iframe ", "<noembed>", "<noframes>", "<plaintext>",
                                        "<!--", "-->", "<!-->", "<!--->", "--!>", "<![CDATA[", "]]>", "<?", "?>", "<!DOCTYPE ", "<!x", "<a href=\"", "\"", "'", "=", " ", "\n", "\n\n", "a", "b", "<b>", "<div>", "</div>",
                                        "<3 ", "<-", "< script>", "<script/", "<scriptx>", "<em>", "<p>", "`", "*", "<pre>", "</pre>", "\t", "> ", "- "]]


RAW_NAMES = ["script", "style", "title", "textarea", "xmp", "iframe", "noembed", "noframes", "plaintext", "b", "div", "em", "p", "pre", "a"]


def raw_docs(seed, n):
    rng = random.Random(seed ^ 0xc17)
    out = []
    for _ in range(n):
        toks = list(RAW_TOKENS)
        # element names with random letter case (each letter flipped independently), as start and end tags
        for _ in range(6):
            nm = "".join(c.upper() if rng.random() < 0.3 else c for c in rng.choice(RAW_NAMES))
            toks += [("<%s>" % nm).encode(), ("</%s>" % nm).encode(), ("<%s " % nm).encode()]
        out.append(gen.soup(rng, nmax=12, toks=toks))
    return out


def filter_fam_corr(cases):
    """coq/filter's filter (the function filter_relaxed, filter_lt_ok and no_rejected_start are proved about) against the
    implementation's filterRaw through the hook; also the theorem's conclusion evaluated by the extracted tokenizer
    fragment: no start tag of the filtered output is rejected by the predicate"""
    ls = lines_of(cases)
    a = run.harness("filterraw", ls)
    b = run.run("drvfilter", "x", ls)
    gfm = {"title", "textarea", "style", "xmp", "iframe", "noembed", "noframes", "script", "plaintext"}
    sets = {"gfm": gfm, "set1": gfm | {"b", "div", "a"}, "set2": gfm | {"em", "p", "pre", "code"}}
    out = []
    for i, (x, y) in enumerate(zip(a, b)):
        yp = y.split("\t")
        if x != yp[0]:
            out.append((i, x, yp[0], "filterRaw: coq/filter model vs implementation"))
            continue
        pred = cases[i][1] or "gfm"
        tags = [t for t in (yp[1].split(",") if len(yp) > 1 and yp[1] else [])]
        rejected = [t for t in tags if (pred == "all") or (pred in sets and t in sets[pred])]
        if rejected:
            out.append((i, x, ",".join(rejected), "tokenizer fragment sees a rejected start tag in the filtered output"))
    return out


class C17(Check):
    rule = "raw-HTML stressors (comments, CDATA, declarations, processing instructions, stray '<', case mixes, raw-text element names) as token soup, plus the general document stream; predicates GFM, reject-all, reject-none and two name sets containing the raw-text elements"
    obligations = [("main", "PropsFull", "C17_chkDoc"), ("filter", "Filter", "filter_relaxed"), ("filter", "Filter", "filter_none_id"), ("filter", "Filter", "filter_lt_ok"), ("filter", "TokProof", "start_tag_origin"),
                   ("filter", "TokProof", "no_rejected_start"), ("filter", "TokProof", "prefix_closed_names"), ("main", "C17doc", "C17_only_lt_escaped"),
                   ("main", "C17tags", "C17_no_rejected_start_doc_partial"), ("main", "C17tags", "C17_no_rejected_start_renderDoc_partial"),
                   ("main", "C17tags", "C17_no_rejected_start_doc_statement_false"), ("main", "C17exact", "chkB_exact"), ("main", "C17exact", "chkB_setP"),
                   ("main", "ChkDocAll2", "C17_no_rejected_start_renderDoc"), ("main", "ChkDocAll2", "chkDoc_all"), ("main", "ChkF7", "entryBounds_all")]
    assumptions = ["second clause proved for every input with no side condition (ChkDocAll2.C17_no_rejected_start_renderDoc: for every configuration with a tag filter whose predicate is prefix closed and every input, the WHATWG data-state tokenizer fragment sees no rejected start tag in renderDoc's whole output; chkDoc_all: the side condition chkB holds of every parser output)", "first clause proved for whole documents on the renderer model (C17_only_lt_escaped); second clause also proved for arbitrary trees (C17_no_rejected_start_doc_partial: the tokenizer fragment sees no rejected start tag in the renderer's whole output) for prefix-closed predicates under the boolean side condition chkB on the tree (raw-HTML and verbatim leaves do not end inside a tag name that the following output continues); the side condition is exact (chkB_exact), independent of the predicate (chkB_setP), is evaluated on the implementation's own tree in every run, and without it the statement is false for arbitrary trees (C17_no_rejected_start_doc_statement_false: two adjacent raw nodes '<scr' 'ipt>'); that every parser output satisfies it is now proved (chkDoc_all); second clause also proved for filterRaw output on one fragment (no_rejected_start); the oracle uses golang.org/x/net/html's tokenizer on the implementation's output"]

    def jobs(self, seed, tier):
        ds = raw_docs(seed, size(tier, 2500, 100000)) + docs(seed, tier, quick=1000, thorough=30000)
        cases = [(d, str(6 + (i % 24))) for i, d in enumerate(ds)]
        frag = raw_docs(seed + 5, size(tier, 2000, 80000))
        preds = ["gfm", "all", "none", "set1", "set2"]
        fcases = [(d, preds[i % 5]) for i, d in enumerate(frag)]
        jcases = [(d, "") for d in ds]
        def side(cases):
            ls = lines_of([(c, "") for c, _ in cases])
            a = run.harness("full", ls)
            b = run.model("chk17", [strip_refs(x) + "\t" + str(i % 3) for i, x in enumerate(a)])
            return [(i, a[i][:800], b[i], "side condition chkRoots of C17_no_rejected_start_doc_partial fails on the implementation's tree") for i in range(len(a)) if b[i] != "1"]
        return [Job("tree -> filtered HTML", cases, corr=tree_render_corr("html")),
                Job("side condition of the whole-document theorem on the implementation's trees", cases, corr=side),
                Job("filterRaw on fragments", fcases, corr=two_sided("filterraw", "filterraw", ident, "filterRaw output")),
                Job("filterRaw on fragments (model of coq/filter)", fcases, corr=filter_fam_corr),
                Job("documents x predicates", jcases, judge_mode="judge:C17")]


reg(C17("C17"))


# ---- C11 -----------------------------------------------------------------------------------------
EMPH_ALPHA = [b"*", b"_", b"a", b" ", b".", "é".encode(), "“".encode(), " ".encode(), "Р".encode(), "不".encode(), "上".encode(), "三".encode(), "\u2003".encode(), "\u3000".encode(), "¡".encode()]


def emph_strings(seed, tier):
    L = 5 if tier == "quick" else (6 if tier == "search" else 7)
    out = list(gen.strings_over(EMPH_ALPHA[:6], L))
    rng = random.Random(seed ^ 0xe11)
    n = size(tier, 3000, 200000)
    for _ in range(n):
        k = 6 + rng.randrange(40)
        out.append(b"".join(rng.choice(EMPH_ALPHA + [b"**", b"__", b"***", b"*", b"_"]) for _ in range(k)))
    return out


class C11(Check):
    rule = "all strings up to length 5 (quick) / 7 (thorough) over {*, _, a, space, '.', e-acute}, plus random strings of 6-45 symbols adding a non-ASCII punctuation mark and a no-break space; non-trivial = contains a delimiter run"
    obligations = [("main", "TieInline", "tie_inline"), ("emph", "EmphProof", "process_emphasis_opt_sound"), ("main", "PEProof", "processEmphasis_opt_sound"),
                   ("main", "EmphSlice2", "C11_slice2"), ("main", "EmphSlice2", "C11_emphasis_slice2"), ("main", "EmphSlice2", "spec2_extends"), ("main", "EmphFlags2", "emphasisFlags_spec2"), ("main", "EmphSlice", "C11_slice"), ("main", "EmphSlice", "C11_parseInlines"), ("main", "EmphSlice", "C11_emphasis_slice"), ("main", "EmphSlice", "C11_opt"),
                   ("main", "EmphSlice", "C11_structure"), ("main", "EmphFlags", "emphasisFlags_spec")]
    assumptions = ["proved: the openers_bottom search bounds never change the result of the procedure (abstract delimiter lists of any length, and on the transcription of processEmphasis with its tree surgery); end to end on a vertical slice (EmphSlice.C11_slice): for every line of any length over letters, single spaces, '*', '_' and the bytes . , ; : ( ) and both quote characters that starts with a letter, parseInlines / parseFull of the model produce exactly the forest that the CommonMark 0.30 delimiter-run procedure denotes (flanking from the spec's definitions, EmphFlags.emphasisFlags_spec; process-emphasis without openers_bottom; matches replayed on the token list), the spec run terminates within its fuel, and the run with openers_bottom gives the same events; widened (EmphSlice2.C11_slice2): the same for lines of characters over letters, digits, single spaces, '*', '_', 22 further ASCII punctuation bytes (all but the ones that start other inline constructs), the 16 non-ASCII Zs white-space code points, 46 non-ASCII punctuation code points and non-ASCII letters (U+00C0-U+024F and a dozen Greek/Cyrillic/CJK letters), with flanking decided on decoded code points from the spec's definitions (EmphFlags2.emphasisFlags_spec2; EmphSpec2 uses nothing of the model's decoder or tables); outside that alphabet (links, code spans, entities, escapes, other code points) flanking flags and the tokeniser are tied by the correspondence; the oracle is an independent Go transcription of the spec procedure without the bound"]

    def jobs(self, seed, tier):
        cases = [(s, "0") for s in emph_strings(seed, tier)]
        j = Job("emphasis strings", cases, corr=two_sided("html", "html", ident, "HTML of one-paragraph documents"), judge_mode="judge:C11",
                nontrivial=lambda c: b"*" in c[0] or b"_" in c[0])
        # the slice of EmphSlice.C11_slice: the forest denoted by the spec's procedure (extracted EmphSpec.specForest)
        # against the implementation's tree
        rng = random.Random(seed ^ 0xe11)
        n = size(tier, 1500, 60000)
        sl = []
        alpha = ["*", "_", "*", "_", "**", "__", "***", "a", "b", "Z", " ", " ", ".", ",", ";", ":", "(", ")", '"', "'"]
        while len(sl) < n:
            t = rng.choice("abXy") + "".join(rng.choice(alpha) for _ in range(rng.randrange(1, 14 if rng.random() < 0.9 else 60)))
            t = re.sub(" +", " ", t)
            sl.append((t.encode(), ""))

        def slice_corr(cases):
            a = run.harness("full", lines_of([(c + b"\n", "") for c, _ in cases]))
            b = run.model("emphspec", lines_of(cases))
            out = []
            for i in range(len(cases)):
                if b[i] == "skip":
                    continue
                m = re.match(r"\(R 1 0 \d+ [0-9a-f]+ \(B \d+ \d+ \d+ 0 0 0 -?\d+(.*)\)\) M$", a[i])
                got = m.group(1).replace(" (", "(").strip() if m else a[i]
                if got != b[i].replace(" (", "(").strip():
                    out.append((i, got, b[i], "inline forest of the paragraph vs EmphSpec.specForest"))
            return out
        # the widened slice (EmphSlice2.C11_slice2): more ASCII punctuation, digits, Unicode white space / punctuation / letters
        wide = ["*", "_", "*", "_", "**", "__", "***", "a", "b", "Z", "7", " ", " ", ".", ",", "#", "$", "%", "+", "-", "/", "=", "?", "@", "^", "{", "|", "}", "~", "(", ")", '"', "'",
                "\u00a0", "\u2003", "\u3000", "\u202f", "¡", "«", "»", "—", "“", "”", "…", "‹", "、", "。", "「", "！", "é", "ß", "Ā", "ɏ", "α", "Ж", "あ", "日", "中"]
        sl2 = []
        while len(sl2) < n:
            t = rng.choice("abXy") + "".join(rng.choice(wide) for _ in range(rng.randrange(1, 14 if rng.random() < 0.9 else 50)))
            t = re.sub(" +", " ", t)
            sl2.append((t.encode("utf-8"), ""))

        def slice2_corr(cases):
            a = run.harness("full", lines_of([(c + b"\n", "") for c, _ in cases]))
            b = run.model("emphspec2", lines_of(cases))
            out = []
            for i in range(len(cases)):
                if b[i] == "skip":
                    continue
                m = re.match(r"\(R 1 0 \d+ [0-9a-f]+ \(B \d+ \d+ \d+ 0 0 0 -?\d+(.*)\)\) M$", a[i])
                got = m.group(1).replace(" (", "(").strip() if m else a[i]
                if got != b[i].replace(" (", "(").strip():
                    out.append((i, got, b[i], "inline forest of the paragraph vs EmphSpec2.specForest2"))
            return out
        return [j, Job("emphasis slice against the spec procedure", sl, corr=slice_corr, corr_is_spec=True),
                Job("widened emphasis slice against the spec procedure", sl2, corr=slice2_corr, corr_is_spec=True)]


reg(C11("C11"))


# ---- C12 -----------------------------------------------------------------------------------------
LABEL_ATOMS = ["a", "B", "ß", "ss", "SS", "ǰ", "ﬃ", "ffi", "Σ", "σ", "ς", "K", "k", "İ", "i̇", " ", "  ", "\t", "\n", " ", " ", "\\]", "\\[", "é", "É", "1", "!", "Ω", "ω"]


def norm_label(s):
    """CommonMark: strip leading/trailing spaces, tabs, line endings; collapse internal runs; Unicode case fold"""
    t = re.sub(r"[ \t\r\n]+", " ", s).strip(" ")
    return t.casefold()


def label_docs(seed, n):
    rng = random.Random(seed ^ 0xc12)
    out = []
    while len(out) < n:
        lab = "".join(rng.choice(LABEL_ATOMS) for _ in range(1 + rng.randrange(5)))
        if not lab.strip(" \t\n") or lab.startswith("\n") or "\n\n" in lab or lab.strip() != lab and rng.random() < 0.5:
            continue
        r = rng.random()
        if r < 0.4:
            use = "".join(c.swapcase() if rng.random() < 0.5 else c for c in lab)
        elif r < 0.6:
            use = re.sub(" ", lambda m: rng.choice([" ", "  ", "\t", "\n"]), lab)
        elif r < 0.8:
            use = "".join(rng.choice(LABEL_ATOMS) for _ in range(1 + rng.randrange(5)))
        else:
            use = lab
        if "\n\n" in use or not use.strip(" \t\n") or "\n\n" in re.sub(r"[ \t]", "", use) or "\n\n" in re.sub(r"[ \t]", "", lab):
            continue
        # labels may not contain blank lines or unescaped brackets; atoms only have escaped ones
        expect = norm_label(lab) == norm_label(use)
        place = rng.randrange(4)
        d = "[%s]: /u\n" % lab
        form = rng.randrange(4)
        um = ("[%s]" if form < 2 else "[%s][]" if form == 2 else "[zz9][%s]") % use
        uc = rng.randrange(4)
        if uc >= 2:
            # the use inside a container, its label possibly continued on prefixed lines
            first, cont = ("> ", "> ") if uc == 2 else ("- ", "  ")
            um = first + um.replace("\n", "\n" + cont)
        u = um + "\n"
        if place == 0:
            doc = d + "\n" + u
        elif place == 1:
            doc = u + "\n" + d
        elif place == 2:
            doc = "> " + d.replace("\n", "\n> ").rstrip("> ") + "\n" + u
        else:
            doc = "- " + d.replace("\n", "\n  ").rstrip(" ") + "\n" + u
        if place >= 2 and "\n" in lab:
            continue
        out.append((doc.encode(), "1" if expect else "0"))
    return out


def order_docs(seed, n):
    """competing definitions in several placements; the oracle checks first-wins on the implementation"""
    rng = random.Random(seed ^ 0x12c)
    out = []
    for _ in range(n):
        labs = [rng.choice(["a", "A", "b", "ß", "SS", "a b", "A  B"]) for _ in range(2 + rng.randrange(3))]
        parts = []
        for i, l in enumerate(labs):
            d = "[%s]: /u%d \"t%d\"\n" % (l, i, i)
            w = rng.randrange(4)
            parts.append(d if w == 0 else "> " + d if w == 1 else "- " + d if w == 2 else "1. > " + d)
            if rng.random() < 0.5:
                parts.append("\n")
        parts.insert(rng.randrange(len(parts) + 1), "[%s] [%s][]\n\n" % (rng.choice(labs), rng.choice(labs)))
        out.append(("".join(parts).encode(), ""))
        # two competing definitions inside ONE root block, the earlier one nested deeper or shallower than the later one
        a, b = rng.choice(labs), rng.choice(labs)
        d1, d2 = "[%s]: /first 'one'" % a, "[%s]: /second 'two'" % (a.upper() if rng.random() < 0.5 else a)
        shape = rng.choice(["> - %s\n>\n> %s\n", "> > %s\n>\n> %s\n", "- - %s\n\n  %s\n", "> %s\n>\n> - %s\n", "- %s\n\n  > %s\n", "1. - > %s\n\n   %s\n", "> %s\n> %s\n"])
        out.append((((shape % (d1, d2)) + "\n[%s] [%s]\n" % (a, b)).encode(), ""))
    return out


class C12(Check):
    rule = "label pairs over atoms with multi-character folds, final sigma, Kelvin sign, dotted I, no-break and em spaces, tabs/line endings, escaped brackets, in four placements (expected match computed by an independent normaliser: whitespace collapse + str.casefold); competing definitions in random orders and containers; the general document stream for the closure clause"
    obligations = [("main", "TieInline", "tie_inline"), ("main", "Clos12full", "C12_closure"), ("main", "Refs12", "extract_is_fold"), ("main", "LabelNormSpans", "label_norm_spans"), ("main", "LabelNormEntries", "label_norm_entries_b"), ("main", "LabelNormEntries", "transformLinkReference_norm"), ("main", "Refs12", "first_wins_first"), ("main", "Refs12", "first_wins_stable"), ("main", "RefSliceMain", "C12_refslice"), ("main", "RefSliceMain", "C12_refslice_resolves"), ("main", "RefSliceMain", "C12_refslice_unresolved"),
                   ("main", "Clos12", "parseInlines_closed"),
                   ("main", "LabelNorm", "label_norm_single"), ("main", "LabelNorm", "collapse_idempotent"), ("main", "LabelNorm", "trim_collapse_idempotent"),
                   ("main", "LabelNormAdj", "label_norm_adjacent")]
    assumptions = ["partial: proved: the closure clause for every input and every matcher (C12_closure), Extract = first-wins fold in source order (extract_is_fold, first_wins_*); label normalisation = the CommonMark definition (fold . trim . collapse) for labels lying in one span or a chain of adjacent spans without NUL (label_norm_single, label_norm_adjacent), whitespace part idempotent; and now also for labels crossing stripped container prefixes: for any well-formed entry list (the boolean conditions the block layer is proved to establish), any label range starting inside an entry and ending within the entries, free of NUL, the computed key is the declarative normalisation of the bytes inside the entries within the range, gap bytes contributing nothing and an Indent entry of k columns contributing k+1 blanks (LabelNormSpans.label_norm_spans, LabelNormEntries.label_norm_entries_b; transformLinkReference_norm for the full-reference path; each side condition has a computed counterexample); the case-folding table itself (generated from x/text) and end-to-end resolution are tied by the correspondence and judged against Python's str.casefold on generated labels"]

    def jobs(self, seed, tier):
        lab = label_docs(seed, size(tier, 2500, 100000))
        order = order_docs(seed, size(tier, 800, 30000))
        ds = [(d, "") for d in docs(seed, tier, quick=1500, thorough=60000)]
        c = two_sided("full", "full", proj_refs, "reference map and link references")
        return [Job("label pairs", lab, corr=c, judge_mode="judge:C12match"),
                Job("competing definitions", order, corr=c, judge_mode="judge:C12"),
                Job("documents", ds, corr=c, judge_mode="judge:C12")]


reg(C12("C12"))


# ---- C14 -----------------------------------------------------------------------------------------
def nocr_docs(seed, tier, quick, thorough):
    return [d for d in docs(seed, tier, quick=quick, thorough=thorough, bad=0.0) if b"\r" not in d]


class C14(Check):
    rule = DOC_RULE + "; documents without CR, each also with LF->CRLF, LF->CR and an appended final newline; every block kind left open at end of input"
    obligations = [("main", "PropsFull", "C14_padding"), ("main", "PropsFull2", "C14_final_newline_full"), ("main", "PropsFull", "C14_cr_parse"), ("main", "PropsFull", "C14_cr_render"), ("main", "PropsFull", "C14_final_newline"), ("main", "PropsFull", "C14_crlf_nobracket"), ("main", "PropsFull", "C14_crlf_limit"), ("stream", "C14b", "skip_blank_lines"), ("stream", "C14b", "nb_shift"), ("main", "Rec15", "parseSetext_correct"), ("recog", "TB", "parseThematicBreak_correct"),
                   ("recog", "ATXProof", "parseATXHeading_correct"),
                   ("main", "EolInv", "recognizers_eol_invariant"), ("main", "EolInv", "recognizers_eolRun_invariant"),
                   ("main", "BlankPrefix", "parseBlocks_blank_prefix_partial"), ("main", "BlankPrefix", "skipLoop_blank_prefix_partial"),
                   ("main", "BlankPrefix", "parseBlocks_blank_prefix_of_total"), ("main", "Uncond", "parseBlocks_blank_prefix"),
                   ("main", "EolFinalFullHbInk", "parseFull_final_newline"), ("main", "EolFinalRender", "renderDoc_final_newline"), ("main", "EolFinalRender", "renderDoc_final_newline_safe"), ("main", "EolFinalRender", "renderDoc_final_newline_delLF"), ("main", "EolCRLFFull", "parseFull_crlf_limit"), ("main", "EolCRLFRender", "renderDoc_crlf"), ("main", "EolCRLFRender", "renderDoc_crlf_delCR"), ("main", "EolCRFull", "parseFull_cr"), ("main", "EolCRRender", "renderDoc_cr"), ("main", "EolCRRender", "renderDoc_cr_norm"), ("main", "EolCRRender", "renderDoc_cr_safe"), ("main", "EolCRRenderTree", "destOK"), ("main", "EolCR", "parseBlocks_cr"), ("main", "EolFinalGenMain", "parseBlocks_final_newline"), ("main", "EolCRLFGen", "parseBlocks_crlf_limit"), ("main", "EolCRLFGen", "parseBlocks_crlf_statement_false"), ("main", "EolCRLFSim", "parseBlocks_crlf_nobracket"), ("main", "EolFinalSimMain", "parseBlocks_final_newline_nobracket"), ("main", "EolCRLFSimLine", "CQ_processLine"), ("main", "EolRefuted", "final_newline_unrestricted_refuted"), ("main", "EolRefuted", "crlf_unrestricted_refuted")]
    slow_files = ["EolFinal", "EolCRLF", "EolStruct"]
    assumptions = ["partial: the padding clause is proved on the concrete block machine (parseBlocks_blank_prefix_partial: parseBlocks (B ++ s) = shifted parseBlocks s for blank-line prefixes B, under the side condition that a CR ending B does not fuse with an LF starting s ; Uncond.parseBlocks_blank_prefix is the statement without any fuel condition, by the totality theorem of the block layer) and for any block machine (nb_shift); all five recognizers are proved independent of the line-ending style and of its presence (recognizers_eol_invariant, any run of CR/LF bytes); the CR clause is proved through the WHOLE pipeline for every input without CR: parseFull (cr s) = parseFull s with only the Source bytes mapped (EolCRFull.parseFull_cr: trees after the inline pass, spans, kinds and normalised labels literally equal) and the rendered HTML of cr s equals that of s byte for byte except that some LF are CR (EolCRRender.renderDoc_cr, every configuration; renderDoc_cr_norm / renderDoc_cr_safe: equal after mapping CR to LF) — this is the property's first clause for CR as stated; it needed the fact, proved for every input (destOK), that link destinations and autolinks contain no line ending, because normalizeURI would encode LF and CR differently; at the block layer (EolCR.parseBlocks_cr: replacing LF by CR changes nothing but the Source bytes: trees, offsets, lines and normalised labels are literally equal); the final-newline clause is proved through the WHOLE pipeline for every non-empty input that ends neither in a line ending nor in '>': parseFull (s ++ LF) is the image finFullRoots of parseFull s (EolFinalFullHbInk.parseFull_final_newline: only the last root changes; inline forests unchanged except that a paragraph ending in two spaces has its last Text node one byte longer) and the rendering of s ++ LF is the rendering of s with LF bytes inserted (renderDoc_final_newline, every configuration); in safe mode with soft breaks preserved the two renderings are EQUAL unless the input ends in two spaces, and equal after deleting LF always (renderDoc_final_newline_safe, _delLF); the naive forms are refuted with witnesses ('a' + two spaces; an unterminated code block under the other soft-break modes); the CRLF clause is proved through the whole pipeline under the label-limit condition (EolCRLFFull.parseFull_crlf_limit; EolCRLFRender.renderDoc_crlf: the rendering of crlf s is the rendering of s with CR inserted before some LF; equal after deleting CR); at the block layer the final-newline clause is proved for EVERY input (EolFinalGenMain.parseBlocks_final_newline: appending LF to a non-empty input that ends neither in a line ending nor in '>' changes only the last root, exactly by the relation finRoots; the '>' exclusion is the contains off-by-one, see DESIGN 12.11c); the CRLF clause is proved for every input without CR whose length keeps every label scan below the 999-step limit in both runs (EolCRLFGen.parseBlocks_crlf_limit: 2 * len (crlf (pad s)) + 9 < 999) and for every input of any length that contains no '[' (parseBlocks_crlf_nobracket); the statement with the bound len (crlf s) < 999 is false (parseBlocks_crlf_statement_false: the limit counts reader steps, and a partly consumed tab costs up to four steps for one byte: a 916-byte witness, same family as finding D24); earlier, weaker forms: (EolCRLFSim.parseBlocks_crlf_nobracket: parseBlocks (crlf s) is the image of parseBlocks s under the position map p + number of LF before p, Sources mapped; EolFinalSimMain.parseBlocks_final_newline_nobracket: appending LF to an input that does not end in a line ending nor in '>' changes only the last root, exactly by the relation finRoots: per-line simulations for every block kind, EOF step, stream layer); '[' is excluded because the link-reference-definition reader would need a two-run commutation with fuel independence and, for CRLF, the 999-character limit (finding D24): with '[' the clauses are decided by the correspondence on the variants plus the oracle; for all inputs the exact tree relations are executable checkers (EolFinalDefs, EolCRLFDefs), each refuted without a restriction (EolRefuted: ' <?>' changes the tree but not the safe rendering; a 996-byte label with three line endings is finding D24) and, restricted, proved only for all inputs of length <= 5 over four alphabets and for 65 640 documents of 1-3 lines (coq/slow, compiled in the thorough tier): the unbounded simulation for those two clauses is still open; correspondence on the variants plus the oracle decide them"]

    def jobs(self, seed, tier):
        base = nocr_docs(seed, tier, 1200, 50000)
        var = []
        for d in base:
            var.append((d, "3"))
            var.append((d.replace(b"\n", b"\r\n"), "3"))
            var.append((d.replace(b"\n", b"\r"), "4"))
            if d and d[-1:] != b"\n":
                var.append((d + b"\n", "5"))
        jc = [(d, "") for d in docs(seed, tier, quick=2500, thorough=100000, bad=0.0)] + [(d, "") for d in gen.final_newline_templates()]
        for d in gen.final_newline_templates():
            var.append((d, "3"))
            var.append((d + b"\n", "5"))
        # link labels around the 999-character limit with line breaks inside (a CRLF counts as two): found by the proof
        # attempt of the CRLF clause (EolCRLF.crlf_unrestricted_refuted)
        lim = []
        for n in (990, 995, 996, 997, 998, 999):
            for k in (0, 1, 3):
                inner = "a" * (n - k - (k * 3)) if False else None
                body = "a" * (n - k)
                parts = [body[i * len(body) // (k + 1):(i + 1) * len(body) // (k + 1)] for i in range(k + 1)]
                inner = "\n".join(parts)
                lim.append((("[%s]: /u\n\n[%s]\n" % (inner, inner)).encode(), ""))
        return [Job("line-ending variants", var, corr=two_sided("html", "html", ident, "safe-mode HTML")),
                Job("documents", jc, judge_mode="judge:C14"),
                Job("labels at the length limit", lim, judge_mode="judge:C14", shrinkable=False)]


reg(C14("C14"))


# ---- C16 / C09 -------------------------------------------------------------------------------------
class C16(Check):
    rule = DOC_RULE + "; weight on lists ending in blank lines, unclosed fences, HTML blocks, setext headings, definitions followed by text"
    obligations = [("main", "ReparseAll2", "C16_blocks2_partial"), ("main", "ReparseAll2", "C16_blocks2_resync_partial"), ("main", "ReparseOcpLocal", "ocp_local"), ("main", "ReparseOcpLocal", "la_spineEq"), ("main", "ReparseAll2", "covered_covered2"), ("main", "ReparseAll", "C16_blocks_partial"), ("main", "ReparseAll", "C16_blocks_resync_partial"), ("main", "ReparseAll", "walk_parseBlocks"), ("main", "ReparseRun", "C16_cleanCut_partial"), ("main", "ReparseE2L", "C16_E2_call_all_partial"), ("main", "ReparseLineL", "lineB_all"), ("main", "ReparseDecomp", "line_decomp"), ("main", "ReparseSC", "SC_list"), ("main", "ReparseShift", "shift_line"), ("main", "Reparse", "C16_checked_partial"), ("main", "ReparseEof", "reparse_clean_call_reduce"), ("main", "ReparseLocal", "cutOf_prefix"), ("main", "ReparseDefs", "C16_blocks_literal_refuted"), ("main", "SliceReparse", "C16_reparse_paras"), ("main", "SliceReparse", "C16_two_paragraphs"), ("main", "SliceReparse", "C16_reparse_last"), ("main", "L2BndS", "parseBlocks_bounds"), ("main", "C01a", "C01_ordered"), ("stream", "C14b", "nb_shift")]
    assumptions = ["the property is proved end to end on a slice only: for any number of one-line text paragraphs separated by a blank line, every root's Source parsed alone gives exactly that root (line 1, offset 0) — up to the model's internal lastLineBlank flag of a root followed by a blank line, which no accessor exposes (SliceReparse.C16_reparse_paras; the literal statement including that flag is refuted, ex_reparse_flag); for general inputs without NUL, at the block layer: every root block that is closed at the position read so far (closed by its own last line or by end of input: ATX headings, thematic breaks, setext headings, closed fences, ended HTML blocks, last roots; the executable condition cleanCut) re-parses to itself including the flag (ReparseRun.C16_cleanCut_partial); for a root cut at the start of the line that closed it the property is reduced to a one-line statement, closing by end of input = closing by that line (ReparseEof.reparse_clean_call_reduce), and that equivalence is proved for paragraphs not beginning with '[', code blocks, HTML blocks, block quotes and lists (ReparseLineL.lineB_all: closing by the following line = closing top-down at the line start, up to the lastLineBlank flag; ReparseSC.SC_list: closing the open spine bottom-up = closeBlock top-down; hence ReparseE2L.C16_E2_call_all_partial / Reparse2.C16_lineCut_partial: such a root re-parses to itself); roots from pending children are reduced to roots of the re-parse of a suffix document (ReparseDecomp.line_decomp, Reparse3.roots_after_lineCut_partial); assembled (ReparseAll.C16_blocks_partial): for every input without NUL, every root for which the executable predicate `covered` holds re-parses alone to itself (up to the internal lastLineBlank flag of the root); in its final form (ReparseAll2.C16_blocks2_partial, predicate covered2) exclusion (2) below is gone: onCloseParagraph does not depend on the bytes after the closing position (ReparseOcpLocal.ocp_local: two readers over the same spans on upto Q T and on Q commute for every scanner), so a paragraph beginning with '[' on the spine no longer matters; `covered` is true of every root except (1) roots that are link reference definitions, (2) [first form only] roots cut by the following line while a paragraph beginning with '[' is still open on the spine, (3) roots after a cut inside a paragraph holding definitions — where the property's own exception and finding D21s live — and (3) is lifted by a computed re-synchronisation check in C16_blocks_resync_partial; walk_parseBlocks shows the predicate speaks about exactly the roots of the parse; every side condition of the closing equivalence is discharged from whole-run invariants; not proved: (1) (groundwork: ReparseOcpPrefix: a reader over the entries before a cut vs over all entries) and inputs with NUL; the statement with the root's lastLineBlank flag compared literally is refuted ('- a', blank line, 'para': ReparseDefs.C16_blocks_literal_refuted — the flag is internal, no accessor exposes it); besides that what is machine-checked are the supporting invariants (root blocks are cut at ends bounded by the line read; shifting by a blank prefix); the property itself is decided by the re-parse oracle on the implementation and by the full-tree correspondence"]

    def jobs(self, seed, tier):
        cases = [(d, "") for d in docs(seed, tier, quick=3000, thorough=150000)]
        # labels with NUL bytes continued over lines (block-parse time reads raw padded NULs; a Source re-parsed alone has U+FFFD)
        for pre in (b"", b"> ", b"- "):
            for a in (b"[a\x00", b"[\x00", b"[a", b"[a\x00\x00"):
                for cont in (b"\x00b]: /url", b"b\x00]: /url", b"\x00]: /url", b"\x00\x00b]: /u \"t\""):
                    c2 = (b"> " if pre == b"> " else b"  " if pre else b"")
                    cases.append((pre + a + b"\n" + c2 + cont + b"\n", ""))
                    cases.append((pre + a + b"\n" + c2 + cont + b"\n\n" + pre + a[:1] + a[1:] + b" " + cont.split(b"]")[0] + b"]\n", ""))
        return [Job("documents", cases, corr=two_sided("full", "full", proj_kindspans, "(kind, span) trees"), judge_mode="judge:C16")]

    def extra_coverage(self, st):
        return {"explanation": "re-parse oracle on the implementation (every root block of every case re-parsed through NewBlockParser + Rewrite and compared node by node) plus model/implementation tree correspondence; supporting invariants machine-checked"}


reg(C16("C16"))


def nest_docs(seed, tier):
    rng = random.Random(seed ^ 0xc09)
    toks = [t for t in gen.TOK_B if b"\t" not in t and b"\r" not in t and b"\x00" not in t] + [b"[a](/u \"t\nu\")", b"<b\nc>", b"`a\nb`", b"[a\nb]", b"[a]: /u\n 't\nu'\n", b"===\n", b"---\n"]
    out = [d for d in gen.corpus() if b"\t" not in d and b"\r" not in d and b"\x00" not in d]
    n = size(tier, 1500, 60000)
    while len(out) < n:
        out.append(gen.soup(rng, nmax=10, toks=toks))
    return out


class C09(Check):
    rule = "tab-free, CR-free documents (spec examples + token soup with multi-line links, titles, raw tags, code spans, setext headings, definitions); quote prefix '> ' and list markers -, +, 7., 12) with 1..4 spaces"
    obligations = [("main", "PropsFull", "C09_quote_blocks"), ("main", "PropsFull2", "C09_item_parse"), ("main", "PropsFull2", "C09_item_render"), ("main", "PropsFull2", "C09_quote_parse"), ("main", "PropsFull2", "C09_quote_render"), ("main", "PropsFull", "C09_item_blocks"), ("main", "IFull3", "parseFull_item"), ("main", "IFull", "renderDoc_item"), ("main", "IFull4", "parseFull_item_final"), ("main", "QFull", "parseFull_quote"), ("main", "QFull", "renderDoc_quote"), ("main", "QFull", "parseInlines_quote_leaves"), ("main", "QFullRefuted", "parseFull_quote_qI_refuted"), ("main", "ItemSimMain", "parseBlocks_item"), ("main", "ItemSimQLine", "processLine_item"), ("main", "QS2Spec2", "parseBlocks_quote"), ("main", "QS2Main", "parseBlocks_quote_T58"), ("main", "QRdrOcp", "q_onCloseParagraph"), ("main", "QuoteSimMain", "parseBlocks_quote_main_partial"), ("main", "QuoteSimMain", "parseBlocks_quote_single_root_partial"), ("main", "QuoteSimQLine", "processLine_quoted"), ("main", "QuoteSimTest", "parseBlocks_quote_naive_refuted"), ("main", "SliceNest", "C09_quote"), ("main", "SliceNest", "C09_bullet_item"), ("main", "SliceNest", "C09_ordered_item"), ("main", "SliceMulti", "C09_quote_lines"),
                   ("main", "L2CCfull", "parseFull_contain"), ("main", "NoPanicAll", "parseBlocks_no_panic")]
    assumptions = ["list-item clause, full on the model as the property states it: for every bullet or ordered marker, N in 1..4 and tab-free D without whitespace-only lines whose marker line is not a thematic break, parseFull of the indented document is the one-item list whose children are the rewritten blocks of parseFull D under the position map (IFull3.parseFull_item) and in every safe-mode configuration its rendering is <ul>/<ol [start=n]><li> around the renderings of D's root blocks, paragraphs without <p> exactly when the list comes out tight (IFull.renderDoc_item)", "block-quote clause, full on the model as the property states it: for every non-empty document D without tab, CR and NUL, parseFull of D with '> ' before every line is exactly one BlockQuote root whose children are the rewritten blocks of parseFull D under the position map (QFull.parseFull_quote; Text and RawHTML nodes that span lines are cut at every line feed, as the corrected statement says: the version without the cut is refuted, parseFull_quote_qI_refuted), and in every safe-mode configuration (ignoreRaw) the rendering of the quoted document is <blockquote> around the concatenated renderings of the root blocks of D (QFull.renderDoc_quote); the inline simulation needed one fact about the gaps (the byte behind a line feed's image is never ')': it is '>'), without which the core statement is false (witness proved)", "block-quote clause at the block layer, full: for EVERY non-empty document D without tab, CR and NUL (QS2Spec2.parseBlocks_quote = QuoteSimDefs.parseBlocks_quote_statement): parseBlocks of D with '> ' before every line is exactly one BlockQuote root over the whole input whose children are the blocks of all roots of D under the explicit position map, lastLineBlank flags exact, Text nodes of definitions split at line ends as the corrected statement says; link reference definitions included (a bisimulation of the multi-line reader under per-entry shifts, lifted through every scanner, collectTextNodes and the definition loop); list-item clause at the block layer, full (ItemSimMain.parseBlocks_item = ItemSimDefs.parseBlocks_item_statement): for every bullet marker and every ordered marker of 1-9 digits, every N in 1..4 and every tab-free non-empty D whose first byte is not a space and which has no whitespace-only line, provided the marker line is not a thematic break, parseBlocks of the indented document is exactly one List root > one ListItem (indent W+N, the marker's delimiter) > ListMarker followed by the blocks of all roots of D under the position map p + K*(lines before p + 1), definitions included; the one-item list is NOT always tight (the document '> - a', '>', 'b' under '- ' is loose: the bare '>' line sets lastLineBlank on the inner list), so the theorem states looseness as it comes out; what the property adds beyond the block layer (the inline pass inside the container and the rendering) is proved on slices and otherwise decided by the nesting oracle", "earlier, weaker form: for every non-empty document D without tab, CR, NUL and without '[': parseBlocks of D with '> ' before every line is exactly one BlockQuote root over the whole input whose children are the blocks of all roots of D under the explicit position map (every span, inline entry, kind, indent, number, delimiter, loose flag and nested flag equal; QuoteSimMain.parseBlocks_quote_main_partial, by a two-stage per-line simulation: nest one level deeper, relocate); two corrections to the naive statement, each with its witness as a theorem: the internal lastLineBlank flag of the quote's top-level children differs (blank lines between roots are skipped in the plain run, processed inside the quote) and a Text node spanning lines inside a definition is split at line ends; '[' is excluded because the link-reference-definition reader would have to be relocated under per-span shifts with fuel adequacy; the list-item clause is not treated at this generality", "end to end (rendering included) on a slice: for text lines of any length (letters, digits, single spaces, escaped punctuation), '> ' before one line, or before each of several lines forming one paragraph, yields one block quote whose content is exactly the paragraph shifted by the prefix-removal map, and the rendering is <blockquote> around the rendering of D (SliceNest.C09_quote, SliceMulti.C09_quote_lines); one line behind a bullet or one-digit ordered marker yields the one-item list with [marker; paragraph shifted] (C09_bullet_item, C09_ordered_item); for general D the property is decided by the nesting oracle on the implementation (safe-mode HTML of D vs. of the contents of quote(D) / item(D)) and by the correspondence of model and implementation on D, quote(D) and item(D)"]

    def jobs(self, seed, tier):
        base = nest_docs(seed, tier)
        var = []
        for d in base:
            var.append((d, "3"))
            var.append((b"".join(b"> " + l for l in d.splitlines(True)), "3"))
            ls = d.splitlines(True)
            if ls and d[:1] not in (b" ", b"\n") and all(l.strip() for l in ls):
                var.append((b"- " + ls[0] + b"".join(b"  " + l for l in ls[1:]), "3"))
        return [Job("D, quote(D), item(D)", var, corr=two_sided("html", "html", ident, "safe-mode HTML")),
                Job("documents", [(d, "") for d in base], judge_mode="judge:C09")]

    def extra_coverage(self, st):
        return {"explanation": "nesting oracle on the implementation plus model/implementation correspondence on each document and its quoted / list-indented image"}


reg(C09("C09"))


# ---- C08 -----------------------------------------------------------------------------------------
def schedules(seed, ds):
    rng = random.Random(seed ^ 0xc08)
    out = []
    for d in ds:
        r = rng.random()
        if r < 0.15 and b"\r" not in d:
            d = d.replace(b"\n", b"\r")
        elif r < 0.3 and b"\r" not in d:
            d = d.replace(b"\n", b"\r\n")
        n = len(d)
        kind = rng.randrange(6)
        if b"\r" in d and rng.random() < 0.5:
            kind = rng.choice([0, 4, 6])
        if kind == 0:
            caps = "1." * min(n + 2, 300)
        elif kind == 1:
            caps = ".".join(str(rng.choice([0, 1, 2, 3, 7])) for _ in range(min(n + 3, 200)))
        elif kind == 2:
            caps = ".".join(str(rng.randrange(0, max(2, n))) for _ in range(6))
        elif kind == 3:
            caps = "0.0.0." + str(max(1, n // 2))
        elif kind == 4:
            # split right after every CR and inside multi-byte characters / NUL runs
            cuts, last = [], 0
            for i, b in enumerate(d):
                if b in (13, 0) or b >= 0x80:
                    cuts.append(i + 1 - last)
                    last = i + 1
            caps = ".".join(str(c) for c in cuts[:200])
        elif kind == 6:
            # one read boundary at a random position right after a CR
            pos = [i + 1 for i, b in enumerate(d) if b == 13]
            caps = str(rng.choice(pos)) if pos else ""
        else:
            caps = ""
        p = "caps=" + caps.strip(".") + ";eager=" + str(rng.randrange(2))
        if rng.random() < 0.4:
            p += ";fault=%d:%s" % (rng.randrange(0, n + 1), rng.choice(["E1", "E2"]))
        out.append((d, p))
    return out


class C08(Check):
    rule = DOC_RULE + "; each document under a read schedule (1-byte reads, empty reads, random caps, cuts after every CR / inside multi-byte characters and NUL runs, data returned with the final error or not) and, for 40 %, a fault after k bytes with one of two error values; plus inputs straddling the 8 KiB chunk size"
    obligations = [("main", "TieStream", "tie_stream"), ("stream", "ReaderProof", "readline_sim"), ("stream", "BPProof", "next_block_sim"), ("stream", "C08", "C08_stream_eq"), ("stream", "C08", "C08_fault"),
                   ("stream", "ReaderProof", "read_spec"),
                   ("main", "StreamRd", "readlineS_sim"), ("main", "StreamSim", "nextBlock_sim"), ("main", "StreamFuel", "nextBlock_adequate"),
                   ("main", "StreamEq", "parseStream_eq_partial"), ("main", "StreamEq", "parseStream_fault"), ("main", "StreamEq", "parseStream_eq_from_consume"), ("main", "Uncond", "parseStream_eq_small"), ("main", "Total", "parseBlocks_total")]
    assumptions = ["on the concrete model (main/Stream.v composed with the real block machine): Uncond.parseStream_eq_small is the unconditional statement (the fuel hypothesis of parseStream_eq_partial is discharged by Total.parseBlocks_total); parseStream_eq_partial — for every input below the block-size limit, every list of read caps (0 allowed), both ways of reporting the final error and every final error code, the streaming run returns exactly the root blocks and code of the in-memory run, the final error, and the same error on three further calls — under the one hypothesis that the in-memory run does not exhaust its outer fuel (code <> -1), which is the still-open totality of the block layer (parseStream_eq_from_consume reduces the unconditional statement to it); nextBlock_adequate: the in-memory nextBlock does not depend on surplus fuel", "C08_stream_eq / C08_fault are proved for the stream-layer model (readline, NextBlock, makeRoot) over an arbitrary block machine satisfying three stated laws, for every input below the block-size limit, every read schedule and every fault point; the tie to parse.go is the correspondence of the concrete streaming model (main/Stream.v: the same readline under a scripted reader composed with the real block machine) with the implementation under the same schedule: root-block headers (StartLine, offsets, Source), final error, its persistence, and the Read-call log; equality of the trees and of the reference map between the two entry points is judged on the implementation by the oracle",
                   "Extract and Rewrite are functions of the blocks, so equality of trees and reference map follows from equality of the blocks"]

    def jobs(self, seed, tier):
        # the fixed template families are about block/inline structure; here every document costs a whole streaming run of the
        # model, so only a third of the corpus precedes the generated stream
        ds = gen.corpus()[::3] + docs(seed, tier, quick=1800, thorough=80000, bad=0.1, corpus_first=False)
        rng = random.Random(seed ^ 0x8192)
        for _ in range(size(tier, 6, 100)):
            # plain filler: the point is the position of the chunk boundary, not the cost of parsing 8 KiB of brackets
            pre = rng.choice([b"lorem ipsum dolor\n", b"> quoted line\n", b"- item\n", b"    code line\n", b"a *b* `c` d\n", b"word " * 9 + b"\n"]) * 600
            ds.append((pre + b"\n")[: 8192 - rng.randrange(4)] + rng.choice([b"\r\n", b"\r", b"\n", b"\x00\x00", "é".encode()]) + gen.soup(rng))
        cases = schedules(seed, ds)

        def corr(cases):
            ls = lines_of(cases)
            a = run.harness("stream", ls)
            b = run.model("stream", ls)
            out = []
            for i, (x, y) in enumerate(zip(a, b)):
                # what the stream layer decides: root-block headers, final error, its persistence, the Read-call log.  The inner
                # structure of the trees is the block/inline machine's business (the same on both entry points); their equality
                # between the two entry points of the implementation is judged by the oracle.
                xp, yp = x.split("\t"), y.split("\t")
                if len(xp) == 4 and len(yp) == 4:
                    xp[0], yp[0] = proj_headers(xp[0]), proj_headers(yp[0])
                if xp != yp:
                    what = "root-block headers"
                    if len(xp) == 4 and len(yp) == 4:
                        what = ["root-block headers (StartLine, offsets, Source)", "final error", "persistence of the final error", "Read-call log (capacity requested / bytes returned / error)"][[j for j in range(4) if xp[j] != yp[j]][0]]
                    out.append((i, "\t".join(xp)[-1500:], "\t".join(yp)[-1500:], "streaming run under the schedule: " + what))
            return out
        return [Job("documents x schedules", cases, corr=corr, judge_mode="judge:C08")]


reg(C08("C08"))


# ---- C15 -----------------------------------------------------------------------------------------
LINE_ALPHA = {
    "thematic/setext/bullet": [b"-", b"*", b"_", b"=", b" ", b"\t", b"a", b"+"],
    "atx": [b"#", b" ", b"\t", b"a", b"\\", b"#"],
    "fence": [b"`", b"~", b" ", b"a", b"\t"],
    "ordered": [b"1", b"0", b"9", b".", b")", b" ", b"a", b"\t"],
}


def recog_lines(seed, tier):
    L = 5 if tier == "quick" else 6 if tier == "search" else 7
    out = set()
    for name, al in LINE_ALPHA.items():
        al = list(dict.fromkeys(al))
        for s in gen.strings_over(al, L):
            out.add(s)
    out = sorted(out)
    withnl = []
    rng = random.Random(seed ^ 0xc15)
    for s in out:
        withnl.append(s + rng.choice([b"", b"\n", b"\r\n", b"\r"]))
    allsyms = [b"-", b"*", b"_", b"=", b"#", b"`", b"~", b"+", b" ", b"\t", b"a", b"1", b"9", b".", b")", b"\\", "é".encode(), b"123456789", b"1234567890", b"```", b"~~~~", b"###### ", b"####### "]
    for _ in range(size(tier, 3000, 200000)):
        k = 1 + rng.randrange(30)
        withnl.append(b"".join(rng.choice(allsyms) for _ in range(k)) + rng.choice([b"", b"\n", b"\r\n", b"\r"]))
    return withnl


URI_ALPHA = ["Ł".encode(), "ź".encode(), "б".encode(), "乡".encode(), b"a", b"%", b"4", b"G", b"g", b" ", b"/", b"?", "é".encode(), b"\xff", b"[", b"\\", b"<", b"\"", b"&", b"#", b"~", b"^", b"\x7f", b"\x01", b"%41", b"%e9", b"%zz", "日".encode(), b"+", b"|"]
EMAIL_ALPHA = [b"a", b"Z", b"0", b"@", b".", b"-", b"_", b"+", b"!", b" ", "é".encode(), b"<", b"a" * 63, b"b" * 64, b"-a", b"a-", b"..", b"x.y"]


def strings_rand(seed, alpha, L, n):
    out = list(gen.strings_over(alpha[:8], L))
    rng = random.Random(seed)
    for _ in range(n):
        out.append(b"".join(rng.choice(alpha) for _ in range(1 + rng.randrange(12))))
    return out


class C15(Check):
    rule = "all 256 byte values (classifier table, exhaustive); all lines up to length 5 (quick) / 7 (thorough) over the alphabet each recognizer distinguishes, with each line-ending style, plus random lines to length 30 (with 9- and 10-digit numbers, 6 and 7 hashes); URI and e-mail strings exhaustively to length 4 over 8 symbols plus random strings over 18-26 symbols; non-trivial = non-empty"
    obligations = [("main", "AtxMain", "atx_impl_exact"), ("main", "AtxMain", "atx_C15"), ("main", "AtxMain", "atx_C15_fine"), ("main", "AtxMain", "atx_C15_fine_converse"), ("main", "AtxMain", "atx_D22_refuted"), ("recog", "TB", "parseThematicBreak_correct"), ("recog", "TB", "parseThematicBreak_none"), ("recog", "ATXProof", "parseATXHeading_correct"), ("main", "Rec15", "parseSetext_correct"),
                   ("main", "Rec15", "punct_spec"), ("main", "Rec15", "hex_spec"), ("main", "Rec15", "control_spec"), ("main", "Rec15", "ws_spec"), ("main", "Rec15", "letter_spec"),
                   ("main", "Rec16", "parseListMarker_sound"), ("main", "Rec16", "parseListMarker_complete"), ("main", "Rec16", "parseListMarker_none"), ("main", "Rec16", "ordered_number_range"),
                   ("main", "Rec17", "parseCodeFence_sound"), ("main", "Rec17", "parseCodeFence_complete"), ("main", "Rec17", "parseCodeFence_none"),
                   ("main", "Rec18", "email_iff"), ("main", "Rec18", "isEmailAddress_iff"),
                   ("main", "Rec19", "normalizeURI_alphabet"), ("main", "Rec19", "normalizeURI_idempotent"), ("main", "Rec19", "normalizeURI_fix"),
                   ("main", "TieClassify", "tie_classifiers"), ("main", "TieBlocks", "tie_blocks"), ("main", "TieRender", "tie_render"), ("main", "TieAtoms", "tie_atoms")]
    assumptions = ["the 62 tag names of HTML-block start condition 6 (built in /repo from atom.X.String() calls) are regenerated on every run and proved equal to the model's list (TieAtoms.tie_atoms)", "every clause has its theorem on the model (recognizers = declarative definitions on every line; classifiers over all 256 bytes by computation; e-mail grammar; URI alphabet, well-formed escapes, idempotence); the byte classifiers' bodies and the constants are regenerated from /repo's source on every run (TieClassify, TieBlocks, TieRender), the recognizers are tied by the correspondence through the verif hook",
                   "the ATX recognizer of the main model is characterised exactly, for every line: atx_impl_exact (= the CommonMark definition with the implementation's extra rule that a blank after an odd run of backslashes is kept), atx_C15_fine / atx_C15_fine_converse (it agrees with the CommonMark definition on precisely the lines outside the class escTail), atx_D22_refuted (the finding D22 as a theorem, witness '# foo\\ '); parseATXHeading_correct of coq/recog is the same statement for the recognizer without the extra rule"]

    def jobs(self, seed, tier):
        lines = [(l, "") for l in recog_lines(seed, tier)]
        uris = [(s, "") for s in strings_rand(seed ^ 1, URI_ALPHA, 4 if tier != "thorough" else 5, size(tier, 3000, 200000))]
        # every code point of the Basic Multilingual Plane outside ASCII (surrogates excluded), alone and after a path: a rune
        # must never be judged by one of its bytes
        step = 1 if tier == "thorough" else 7
        for cp in range(0x80 + (seed % step), 0x10000, step):
            if 0xD800 <= cp < 0xE000:
                continue
            uris.append((("/a" + chr(cp)).encode("utf-8"), ""))
        for cp in (0x2026, 0x0421, 0x042F, 0x2021, 0x0123, 0x0420, 0x4E0D, 0x4E0A, 0x4E09, 0x1F600, 0x10021, 0x1002F):
            uris.append((("/wiki/" + chr(cp) + "b").encode("utf-8"), ""))
        mails = [(s, "") for s in strings_rand(seed ^ 2, EMAIL_ALPHA, 4 if tier != "thorough" else 5, size(tier, 3000, 200000))]

        def class_corr(cases):
            a = subprocess.run([os.path.join(build.BIN, "harness"), "class"], stdout=subprocess.PIPE).stdout.decode()
            b = subprocess.run([os.path.join(build.BIN, "drv"), "class"], input=b"00\n", stdout=subprocess.PIPE).stdout.decode()
            al, bl = [x for x in a.split("\n") if x], [x for x in b.split("\n") if x]
            return [(0, x, y, "classifier table row") for x, y in zip(al, bl) if x != y][:1] + ([(0, str(len(al)), str(len(bl)), "table size")] if len(al) != len(bl) else [])
        def fam_corr(cases):
            """the recognizer models of coq/recog (the ones the ATX and thematic-break theorems are proved about) against the
            implementation; the ATX model leaves out the escaped-trailing-blank rule (known finding D22), so lines on which
            only that rule makes a difference are skipped"""
            ls = lines_of(cases)
            a = run.harness("recog", ls)
            b = run.run("drvrecog", "x", ls)
            out = []
            for i, (x, y) in enumerate(zip(a, b)):
                xs = " ".join(x.split(" ")[:2])
                if xs != y:
                    c = cases[i][0]
                    if y.split(" ")[0] == xs.split(" ")[0] and re.search(rb"\\[ \t]", c):
                        continue
                    out.append((i, xs, y, "thematic break / ATX heading: coq/recog model vs implementation"))
            return out
        return [Job("lines", lines, corr=two_sided("recog", "recog", ident, "recognizer results"), judge_mode="judge:C15"),
                Job("lines (models of coq/recog)", lines, corr=fam_corr),
                Job("uri", uris, corr=two_sided("uri", "uri", ident, "NormalizeURI"), judge_mode="judge:C15uri"),
                Job("email", mails, corr=two_sided("email", "email", ident, "parseEmail/IsEmailAddress"), judge_mode="judge:C15email"),
                Job("classifier table (256 bytes, exhaustive)", [(b"\x00", "")], corr=class_corr, judge_mode="judge:C15class", nontrivial=lambda c: True)]

    def extra_coverage(self, st):
        return {"exhaustive_parts": "classifier table over all 256 bytes; lines/URI/e-mail strings exhaustive up to the stated lengths"}


reg(C15("C15"))


# ---- C18 -----------------------------------------------------------------------------------------
def policies(seed, ds):
    rng = random.Random(seed ^ 0xc18)
    out = []
    for d in ds:
        parts = []
        r = rng.random()
        if r < 0.5:
            parts.append("prune=" + ".".join(str(rng.randrange(40)) for _ in range(rng.randrange(5))))
        if rng.random() < 0.4:
            parts.append("abort=%d" % rng.randrange(30))
        if rng.random() < 0.15:
            parts.append("nopre")
        elif rng.random() < 0.15:
            parts.append("nopost")
        v = rng.random()
        if v < 0.2:
            parts.append("virt=root")
        elif v < 0.35:
            parts.append("virt=rev")
        elif v < 0.45:
            parts.append("virt=childonly")
        elif v < 0.55:
            parts.append("virt=countonly")
        out.append((d, ";".join(p for p in parts if p != "prune=")))
    return out


class C18(Check):
    rule = DOC_RULE + "; each parsed tree under a callback policy: prune set by pre-visit number, abort point by post-visit number, nil Pre or nil Post, custom child functions presenting a virtual root over all root blocks or reversing every child list, or only one of ChildCount / Child supplied"
    obligations = [("walk", "W2P", "run_refines_spec"), ("walk", "W2C", "walk_cursors_ok"), ("walk", "W2V", "visit_once"), ("walk", "W2V", "tour_length"), ("main", "WalkG", "walk_is_spec")]
    assumptions = ["full on the model: the explicit-stack machine of walk.go (frames, post flags, cursor construction) equals the recursive traversal for every tree, every pair of callbacks over any user state, and every cursor satisfies the parent/index/nearest-block invariant; custom child functions are folded into the tree walked; the model is tied to walk.go by event traces on the implementation's trees under random policies"]

    def jobs(self, seed, tier):
        ds = docs(seed, tier, quick=2500, thorough=100000)
        cases = policies(seed, ds)

        def corr(cases):
            a = run.harness("walk", lines_of(cases))
            m_in = []
            for x, (c, p) in zip(a, cases):
                m_in.append(x.split("\t")[0] + "\t" + p)
            b = run.run("drvwalk", "trace", m_in)
            out = []
            for i, (x, y) in enumerate(zip(a, b)):
                xp = x.split("\t")
                if len(xp) < 2 or xp[1] != y:
                    out.append((i, xp[1] if len(xp) > 1 else x, y, "Walk event trace (pre/post, node, parent, nearest block, index)"))
            return out
        return [Job("trees x policies", cases, corr=corr, judge_mode="judge:C18")]


reg(C18("C18"))


# ---- C06 -----------------------------------------------------------------------------------------
class C06(Check):
    rule = "abstract documents (paragraphs, ATX/setext headings, thematic breaks, fenced/indented code, block quotes, tight/loose bullet and ordered lists nested to depth 3, HTML blocks, definitions; text, escapes, entities, emphasis, code spans, inline/reference links, images, autolinks, raw tags, hard and soft breaks) serialised with random choices of marker characters, fence lengths, indentation widths, LF/CRLF and escaping style; expected HTML from the generator's own denotation; distinct by serialisation"
    obligations = [("main", "SliceRender2", "C06_blocks"), ("main", "SliceRender2", "C06_blocks_ext"), ("main", "SliceRender3", "C06_blocks_ext2"), ("main", "EmphRender", "C06_emphasis_slice"), ("main", "EmphRender", "C06_slices"), ("main", "RefSliceMain", "C12_refslice"), ("main", "SliceText", "C06_escaped_text"), ("main", "SliceCode", "C06_code_verbatim"), ("main", "SliceText", "C06_escaped_text_any_cfg"), ("main", "SliceCode", "C06_code_verbatim_any_cfg"), ("main", "C07final", "C07_final"), ("main", "RenderWalkProof", "C10_appendBlock"), ("recog", "ATXProof", "parseATXHeading_correct"), ("main", "Rec17", "parseCodeFence_sound")]
    assumptions = ["rendering = denotation is proved on the model for multi-block documents of any length (SliceRender3.C06_blocks_ext2, SliceRender2.C06_blocks / C06_blocks_ext): any number, in any order, of one-line text paragraphs, ATX headings, thematic breaks, fenced code blocks (tabs allowed, optional one-word info string giving class=language-x), paragraphs that are lines of the emphasis slice (denotation = the spec's delimiter procedure) and block quotes of one or several text lines (every soft-break mode); the denotation is written independently of the renderer model", "the two clauses the property singles out are proved on the model for inputs of any length: C06_escaped_text (a one-line paragraph of letters, digits, single spaces and backslash-escaped ASCII punctuation renders to exactly that text, HTML-escaped) and C06_code_verbatim (a backtick-fenced block whose fence is longer than any backtick run at the start of a line renders its lines verbatim, HTML-escaped), for every configuration without tag filter", "the whole-pipeline statement (render (parse (serialize d)) = denote d) is not proved; supporting theorems (recognizers = definitions, renderer = structural reading) are machine-checked; the property is decided by the oracle comparing the implementation's HTML with the generator's denotation, and by the model/implementation correspondence on the same serialisations",
                   "the abstract-document generator and its denotation (lib/docgen.py) are trusted to follow the CommonMark 0.30 text"]

    def jobs(self, seed, tier):
        import docgen
        docs_ = docgen.documents(seed, size(tier, 2500, 100000), style="any")
        cases = [(md, html.hex()) for md, html in docs_]
        hcases = [(md, "0") for md, _ in docs_]
        # emphasis nests: the denotation of a run-delimited nest is what the spec's delimiter procedure says (independent transcription, judge:C11)
        em = [(x, "0") for x in emph_strings(seed, tier)]
        return [Job("serialised abstract documents", hcases, corr=two_sided("html", "html", ident, "HTML (default configuration)")),
                Job("denotation", cases, judge_mode="judge:C06", shrinkable=False, mutate=lambda rng, c: c),
                Job("emphasis nests against the spec procedure", em, judge_mode="judge:C11", nontrivial=lambda c: b"*" in c[0] or b"_" in c[0])]

    def extra_coverage(self, st):
        return {"explanation": "denotation oracle on the implementation plus model/implementation HTML correspondence on serialised abstract documents"}


reg(C06("C06"))


# ---- C19 -----------------------------------------------------------------------------------------
class C19(Check):
    level = "other"
    rule = "race-detector runs: N goroutines parsing distinct documents while M goroutines render (all 30 configurations, one shared renderer value per configuration), format and walk one shared tree; every result compared with the sequential result"
    obligations = [("misc", "Interleave", "schedule_independent"), ("misc", "Interleave", "race_free"), ("main", "TieEffects", "no_shared_writes")]
    assumptions = ["a pure functional model has no interleavings: the logic part is the generic theorem (threads whose writes stay in private regions and whose reads stay in private or frozen regions are schedule independent and race free); its premise is instantiated by the effect summary generated from /repo's typed AST on every run (GenEffects.v: writes through package-level variables or through the shared tree/renderer types in the render/format/walk closure), whose soundness is trusted, not proved",
                   "the Go memory model and the race detector supply the runtime side: a -race build of the harness runs the concurrent workload"]

    def jobs(self, seed, tier):
        return []

    def extra_violations(self, st, tier, seed):
        out = []
        rc, log = race_run(seed, tier)
        m = re.search(r"evaluations (\d+)", log)
        self._race = {"rc": rc, "log_tail": log[-600:], "evaluations": int(m.group(1)) if m else 2}
        if rc != 0:
            out.append(("race-detector run reports a data race or a result differing from the sequential one", log[-2000:]))
        return out

    def extra_coverage(self, st):
        r = getattr(self, "_race", {})
        return {"explanation": "generic schedule-independence theorem + generated effect summary (no shared writes) + race-detector workload", "race_run": r,
                "evaluations": r.get("evaluations", 2), "distinct_nontrivial": r.get("evaluations", 2)}


def race_run(seed, tier):
    godir = os.path.join(build.VERIF, "go")
    exe = os.path.join(build.BIN, "harness_race")
    rc, out = build.sh("go build -race -tags verif -o %s ./harness" % exe, cwd=godir, env=build.GOENV)
    if rc != 0:
        return 1, "race build failed: " + out
    ds = gen.docs(seed, 600 if tier == "quick" else 6000) + raw_docs(seed, 200 if tier == "quick" else 2000)
    n = "60" if tier == "quick" else "600"
    p = subprocess.run([exe, "race", str(seed), n], input=("\n".join(d.hex() for d in ds) + "\n").encode(), stdout=subprocess.PIPE, stderr=subprocess.STDOUT,
                       env=dict(os.environ, GORACE="halt_on_error=1"), timeout=3000)
    return p.returncode, p.stdout.decode("utf-8", "replace")


reg(C19("C19"))
