"""Per-property check definitions."""
import re, random
import core, run, gen
from core import Check

CHECKS = {}


def reg(c):
    CHECKS[c.prop] = c
    return c


def lines_of(cases):
    return [c.hex() + ("\t" + p if p else "") for c, p in cases]


def n_docs(tier, quick, thorough):
    return thorough if tier == "thorough" else quick


# ---- projections of the tree dump -------------------------------------------------------------
RE_B = re.compile(r"\(B (\d+) (-?\d+) (-?\d+) (-?\d+) (\d+) (\d+) (-?\d+)")
RE_I = re.compile(r"\(I (\d+) (-?\d+) (-?\d+) (-?\d+) ([0-9a-f]*)")
RE_R = re.compile(r"\(R (-?\d+) (-?\d+) (-?\d+) ([0-9a-f]*) ")


RE_REFS = re.compile(r" M(\([0-9a-f ]*\))*")


def strip_refs(d):
    return RE_REFS.sub("", d)


def proj_headers(d):
    return " ".join("%s:%s:%s:%s" % m for m in RE_R.findall(d)) + (" CODE" if " CODE" in d else "")


def proj_headers_noline(d):
    return " ".join("%s:%s:%s" % m[1:] for m in RE_R.findall(d)) + (" CODE" if " CODE" in d else "")


def proj_spans(d):
    d = strip_refs(d)
    d = RE_R.sub(lambda m: "(R %s " % m.group(4), d)
    d = RE_B.sub(lambda m: "(B %s %s" % (m.group(2), m.group(3)), d)
    d = RE_I.sub(lambda m: "(I %s %s" % (m.group(2), m.group(3)), d)
    return d


def proj_kinds(d):
    d = strip_refs(d)
    d = RE_R.sub("(R ", d)
    d = RE_B.sub(lambda m: "(B %s %s %s %s %s" % (m.group(1), m.group(4), m.group(5), m.group(6), m.group(7)), d)
    d = RE_I.sub(lambda m: "(I %s %s %s" % (m.group(1), m.group(4), m.group(5)), d)
    return d


def proj_kindspans(d):
    d = strip_refs(d)
    d = RE_R.sub(lambda m: "(R %s " % m.group(4), d)
    d = RE_B.sub(lambda m: "(B %s %s %s %s" % (m.group(1), m.group(2), m.group(3), m.group(4)), d)
    d = RE_I.sub(lambda m: "(I %s %s %s" % (m.group(1), m.group(2), m.group(3)), d)
    return d


RE_LEAF = re.compile(r"\((?:I \d+|B 12) (-?\d+) (-?\d+)[^()]*\)")


def proj_leaves(d):
    d = strip_refs(d)
    out = []
    for part in d.split("(R ")[1:]:
        out.append("R " + " ".join("%s-%s" % m for m in RE_LEAF.findall(part)))
    return " | ".join(out) + (" CODE" if " CODE" in d else "")


def proj_full_noline(d):
    return RE_R.sub(lambda m: "(R %s %s %s " % (m.group(2), m.group(3), m.group(4)), d)


def tree_corr(proj, impl_mode="full", model_mode="full"):
    def f(self, cases):
        ls = lines_of(cases)
        a = run.harness(impl_mode, ls)
        b = run.model(model_mode, ls)
        out = []
        for i, (x, y) in enumerate(zip(a, b)):
            px, py = proj(x) if not x.startswith(("PANIC", "HANG", "CRASH")) else x, proj(y)
            if px != py:
                out.append((i, px, py, "projected tree dump"))
        return out
    return f


class TreeCheck(Check):
    rule = ("documents: corpus (652 spec examples + recorded failures) first, then seeded token soup over Markdown "
            "fragments / corpus mutants / line soups (NUL, CR, CRLF, tabs, invalid UTF-8 mixed in); non-trivial = "
            "non-empty; distinct by bytes")
    n_quick, n_thorough = 3000, 200000

    def cases(self, seed, tier):
        return [(d, "") for d in gen.docs(seed, n_docs(tier, self.n_quick, self.n_thorough))]


# ---- C01 -----------------------------------------------------------------------------------------
class C01(TreeCheck):
    obligations = [("main", "C01a", "C01_ordered"), ("main", "C01b", "unpadded_pad"), ("main", "C01b", "fill_pad"),
                   ("main", "C01b", "lineCount_pad"), ("main", "C01b", "pad_app"), ("main", "L2BndS", "parseBlocks_bounds"),
                   ("stream", "BPProof", "next_block_sim"), ("stream", "C08", "C08_stream_eq")]
    corr_name = "root-block headers (StartLine, offsets, Source) of model vs Parse and vs NextBlock"
    assumptions = ["aliasing of Source with the caller's buffer and non-modification of the buffer are memory facts: observed on the implementation by the oracle (pointer comparison, copy comparison), not proved",
                   "tiling beyond source order/disjointness (gap bytes blank, line-boundary ends) is decided by the correspondence plus the oracle on sampled inputs; C01_ordered, parseBlocks_bounds and the padding lemmas are the proved part"]

    def correspond(self, cases):
        ls = lines_of(cases)
        a = run.harness("full", ls)
        s = run.harness("blocks", ls)
        b = run.model("blocks", ls)
        out = []
        for i in range(len(ls)):
            pm = proj_headers(b[i])
            pa = proj_headers(a[i]) if a[i].startswith("(") or a[i] == "" or a[i].startswith(" M") else a[i]
            ps = proj_headers(s[i]) if s[i].startswith("(") or s[i] == "" else s[i]
            if pa != pm:
                out.append((i, pa, pm, "Parse headers"))
            elif ps != pm:
                out.append((i, ps, pm, "NextBlock headers"))
        return out


reg(C01("C01"))


class C02(TreeCheck):
    obligations = [("main", "L2BndS", "parseBlocks_bounds"), ("main", "C01a", "C01_ordered"), ("main", "NoPanicAll", "parseBlocks_no_panic")]
    corr_name = "span structure (every node's span, nesting, child order) of model parse vs Parse"
    correspond = tree_corr(proj_spans)
    assumptions = ["partial: proved are the bounds of block ends and inline entries by the line read so far (every input); nesting, sibling order and character boundaries are decided by the correspondence plus the span oracle on sampled inputs"]


reg(C02("C02"))


class C03(TreeCheck):
    obligations = [("main", "L2BndS", "parseBlocks_bounds"), ("main", "NoUnpFull", "C05_noUnparsed")]
    corr_name = "leaf spans (inline leaves and list markers, in order) of model parse vs Parse"
    correspond = tree_corr(proj_leaves)
    assumptions = ["partial: the coverage statement itself is decided by the correspondence plus the coverage oracle on sampled inputs"]


reg(C03("C03"))


class C05(TreeCheck):
    obligations = [("main", "L2CCfull", "parseFull_contain"), ("main", "L2Kind2", "parseBlocks_kinds"), ("main", "NoUnpFull", "C05_noUnparsed"),
                   ("main", "Clos12full", "C12_closure"), ("main", "Rec16", "ordered_number_range")]
    corr_name = "node kinds and accessor values (heading level, ordered, tight, item number, indent, reference) of model parse vs Parse"
    correspond = tree_corr(proj_kinds)
    assumptions = ["partial: proved for every input: canContain closure, entry kinds per block kind, no Unparsed node, reference closure, item number range; the remaining grammar clauses are decided by the correspondence plus the grammar oracle"]


reg(C05("C05"))


class C13(TreeCheck):
    obligations = [("main", "Rec16", "parseListMarker_sound"), ("main", "Rec17", "parseCodeFence_sound"), ("recog", "ATXProof", "parseATXHeading_correct"),
                   ("main", "Rec15", "parseSetext_correct")]
    corr_name = "(kind, span) of every node of model parse vs Parse"
    correspond = tree_corr(proj_kindspans)
    assumptions = ["partial: the recognizer theorems give the shape at creation for list markers, fences, ATX and setext lines; the other shapes are decided by the correspondence plus the shape oracle"]


reg(C13("C13"))
