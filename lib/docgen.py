"""Abstract documents for C06 / C20: a generator of abstract CommonMark documents together with
 (a) one serialisation chosen among the spellings whose meaning the spec text fixes, and
 (b) the HTML that the CommonMark 0.30 mapping assigns to the document (the denotation).
Everything derives from one random.Random(seed).  The serializer only emits spellings that are
unambiguous under the 0.30 text; blocks are always separated by one blank line at their nesting level.

style="any":    all serializer choices (marker characters, fence lengths, indentation 1-4, CRLF, escaping style)
style="format": the canonical style and construct set that DESIGN.md fixes for C20's round-trip clause
"""
import random

WORDS = ["a", "foo", "bar", "baz", "quux", "lorem", "ipsum", "x", "yz", "Word", "MiXed", "été", "naïve", "日本", "ß"]
PUNCT = "!\"#$%&'()*+,-./:;<=>?@[\\]^_`{|}~"
ENTITIES = [("&amp;", "&amp;"), ("&lt;", "&lt;"), ("&gt;", "&gt;"), ("&quot;", "&quot;"), ("&copy;", "©"), ("&#65;", "A"), ("&#x42;", "B"), ("&auml;", "ä"), ("&#0;", "�")]


def esc(s):
    return s.replace("&", "&amp;").replace("<", "&lt;").replace(">", "&gt;").replace('"', "&quot;")


class G:
    def __init__(self, rng, style):
        self.r = rng
        self.style = style
        self.defs = []       # (label, dest, title or None)
        self.allow_nl = True  # False while generating single-line content (ATX headings)
        self.toplevel = True  # False while generating the contents of a list item (columns are no longer those of the line start)
        self.nlabel = 0

    # ---------------- inlines: return (markdown, html); single line unless noted
    def word(self):
        return self.r.choice(WORDS)

    def text(self, n=None):
        n = n or 1 + self.r.randrange(3)
        w = " ".join(self.word() for _ in range(n))
        return w, esc(w)

    def escaped(self):
        # every ASCII punctuation character backslash-escaped renders literally
        k = 1 + self.r.randrange(4)
        ps = [self.r.choice(PUNCT) for _ in range(k)]
        return "".join("\\" + p for p in ps), esc("".join(ps))

    def entity(self):
        m, h = self.r.choice(ENTITIES)
        return m, h if h.startswith("&") else esc(h)

    def emph(self, depth):
        ch = self.r.choice("*_")
        strong = self.r.random() < 0.4
        parts = [self.text()]
        if depth < 2 and self.r.random() < 0.3:
            parts.append(self.emph_with("*" if ch == "_" else "_", depth + 1))
            parts.append(self.text(1))
        inner_m = " ".join(m for m, _ in parts)
        inner_h = " ".join(h for _, h in parts)
        d = ch * (2 if strong else 1)
        tag = "strong" if strong else "em"
        return d + inner_m + d, "<%s>%s</%s>" % (tag, inner_h, tag)

    def emph_with(self, ch, depth):
        strong = self.r.random() < 0.4
        m, h = self.text()
        d = ch * (2 if strong else 1)
        tag = "strong" if strong else "em"
        return d + m + d, "<%s>%s</%s>" % (tag, h, tag)

    def code(self):
        body = self.r.choice(["x", "a b", "foo(bar)", "<b>&amp;", "a*b*c", "[x](y)", "\\n", "a`b", "  two  ", "&copy;"])
        if "`" in body:
            return "`` " + body + " ``" if body.startswith("`") or body.endswith("`") else "``" + body + "``", "<code>%s</code>" % esc(body)
        # one leading and trailing space is stripped when both are present and the content is not all spaces
        out = body
        if body.startswith(" ") and body.endswith(" ") and body.strip(" "):
            out = body[1:-1]
        return "`" + body + "`", "<code>%s</code>" % esc(out)

    def dest(self):
        return self.r.choice(["/url", "/a/b.html", "http://example.com/x?y=1&z=2", "#frag", "/p(q)r", "mailto:a@b.c"])

    def title(self):
        if self.style == "format":
            return self.r.choice([None, "title", "a title", "it's"])
        return self.r.choice([None, None, "title", "a \"quoted\" title", "it's", "T & t"])

    def link_parts(self, dest, title):
        m = dest
        if self.style != "format" and self.r.random() < 0.2:
            m = "<" + dest + ">"
        if title is not None:
            if '"' in title:
                q = "'" + title + "'" if "'" not in title else "(" + title + ")"
            elif self.style == "format":
                q = '"' + title + '"'
            else:
                q = self.r.choice(['"%s"', "'%s'" if "'" not in title else '"%s"', "(%s)"]) % title
            m += " " + q
        attrs = ' href="%s"' % esc(dest)
        if title is not None:
            attrs += ' title="%s"' % esc(title)
        return m, attrs

    def link(self):
        tm, th = self.text(1 + self.r.randrange(2))
        if self.r.random() < 0.3:
            em, eh = self.emph_with(self.r.choice("*_"), 2)
            tm, th = tm + " " + em, th + " " + eh
        d, t = self.dest(), self.title()
        kind = self.r.randrange(4)
        if kind == 0:
            pm, attrs = self.link_parts(d, t)
            return "[%s](%s)" % (tm, pm), "<a%s>%s</a>" % (attrs, th)
        # reference styles
        self.nlabel += 1
        if kind == 1:       # full
            label = "ref%d" % self.nlabel if self.r.random() < 0.6 else "ref%d %s" % (self.nlabel, self.word())
            self.defs.append((label, d, t))
            use = label.upper() if self.r.random() < 0.3 and self.style != "format" else label
            if " " in use and self.style != "format" and self.allow_nl and self.r.random() < 0.6:
                use = use.replace(" ", "\n", 1)        # the label continues on the next line
            m = "[%s][%s]" % (tm, use)
        else:
            # collapsed / shortcut: the text is the label; make it unique and plain
            label = "lbl%d %s" % (self.nlabel, self.word()) if self.r.random() < 0.5 else "lbl%d" % self.nlabel
            self.defs.append((label, d, t))
            tm, th = label, esc(label)
            m = "[%s][]" % tm if kind == 2 else "[%s]" % tm
        attrs = ' href="%s"' % esc(d) + (' title="%s"' % esc(t) if t is not None else "")
        return m, "<a%s>%s</a>" % (attrs, th)

    def image(self):
        alt = " ".join(self.word() for _ in range(1 + self.r.randrange(2)))
        d, t = self.r.choice(["/img.png", "http://e.x/i.jpg"]), self.title()
        pm, _ = self.link_parts(d, t)
        attrs = ' src="%s" alt="%s"' % (esc(d), esc(alt)) + (' title="%s"' % esc(t) if t is not None else "")
        return "![%s](%s)" % (alt, pm), "<img%s />" % attrs

    def autolink(self):
        if self.r.random() < 0.6:
            u = self.r.choice(["http://example.com/a?b=c&d", "https://x.y/", "ftp://h/p"])
            return "<%s>" % u, '<a href="%s">%s</a>' % (esc(u), esc(u))
        e = self.r.choice(["a@b.c", "foo.bar+baz@example.com"])
        return "<%s>" % e, '<a href="mailto:%s">%s</a>' % (e, e)

    def rawtag(self):
        t = self.r.choice(['<span class="x">', "</span>", "<b>", "<br/>", "<!-- c -->", '<a href="u" title=\'t\'>'])
        return t, t

    def inline_item(self, depth=0):
        r = self.r.random()
        if r < 0.30:
            return self.text()
        if r < 0.40:
            return self.escaped()
        if r < 0.47:
            return self.entity()
        if r < 0.60:
            return self.emph(depth)
        if r < 0.68:
            return self.code()
        if r < 0.80:
            return self.link()
        if r < 0.86:
            return self.image()
        if r < 0.92:
            return self.autolink()
        return self.rawtag()

    def line(self):
        """one line of inline content that starts and ends with a word"""
        items = [self.text(1)]
        if self.r.random() < 0.08:
            # a line that starts with escaped text which, unescaped, would be a list marker, a heading or a quote marker
            items = [self.r.choice([("1\\.", "1."), ("\\+", "+"), ("12\\)", "12)"), ("\\-", "-"), ("\\*", "*"), ("\\#", "#"), ("\\>", "&gt;"), ("007\\.", "007."), ("123456789\\.", "123456789.")])]
        for _ in range(self.r.randrange(4)):
            items.append(self.inline_item())
        items.append(self.text(1))
        return " ".join(m for m, _ in items), " ".join(h for _, h in items)

    def para_lines(self):
        n = 1 + self.r.randrange(3)
        lines = [self.line() for _ in range(n)]
        md, html = lines[0]
        for m, h in lines[1:]:
            k = self.r.random()
            if k < 0.25:
                md, html = md + "  \n" + m, html + "<br />\n" + h
            elif k < 0.45:
                md, html = md + "\\\n" + m, html + "<br />\n" + h
            else:
                md, html = md + "\n" + m, html + "\n" + h
        return md, html

    # ---------------- blocks: return (list of markdown lines, html)
    def paragraph(self):
        md, html = self.para_lines()
        return md.split("\n"), "<p>%s</p>\n" % html

    def atx(self):
        n = 1 + self.r.randrange(6)
        self.allow_nl = False
        m, h = self.line()
        self.allow_nl = True
        closing = ""
        if self.style != "format":
            closing = self.r.choice(["", "", " #", " " + "#" * n, "  ##  "])
        return ["#" * n + " " + m + closing], "<h%d>%s</h%d>\n" % (n, h, n)

    def setext(self):
        lvl = 1 + self.r.randrange(2)
        if self.style == "format":
            m, h = self.line()
        else:
            m, h = self.para_lines() if self.r.random() < 0.3 else self.line()
            h = h.replace("<br />\n", "<br />\n")
        ul = ("=" if lvl == 1 else "-") * (self.r.choice([3, 5, 1]) if lvl == 1 else self.r.choice([3, 5, 2]))
        if self.style == "format":
            ul = ("=" if lvl == 1 else "-") * 5
        return m.split("\n") + [ul], "<h%d>%s</h%d>\n" % (lvl, h, lvl)

    def thematic(self, avoid=""):
        opts = [s for s in ["***", "---", "___", "* * *", "_____", "- - -"] if s[0] not in avoid]
        if self.style == "format":
            opts = [s for s in ["***", "---", "___"] if s[0] not in avoid] or ["___"]
        return [self.r.choice(opts)], "<hr />\n"

    CODE_LINES = ["x = 1", "<b>&amp;</b>", "  indented", "*not emph*", "[a](b)", "# no heading", "- no list", "> no quote", "`tick`", "\\escape", "a\tb" , "~~", "``",
                  "```", "   ```", "  ````", "~~~", "   ~~~", " ~~~~", "    ```", "``` x",
                  # lines that only look blank: form feed, vertical tab, no-break space, NEL, em space are not CommonMark white space
                  "\x0c", "\x0b", "\u00a0", "\u0085", "\u2003", "\x0c \x0c"]
    INFOS = [("", ""), ("", ""), ("go", "go"), ("c++", "c++"), ("rust extra words", "rust"), ("c\\+\\+", "c++"), ("a&amp;b", "a&b"), ("x\\_y z", "x_y"), ("\\#lang", "#lang"), ("q&quot;", "q\""), ("C:\\temp\\dir extra", "C:\\temp\\dir"), ("tex\\a", "tex\\a")]

    def fenced(self):
        ch = self.r.choice("`~")
        n = self.r.choice([3, 3, 4, 5])
        info, lang = self.r.choice(self.INFOS)
        if self.style == "format" and ("\\" in info or "&" in info):
            info, lang = "go", "go"
        k = self.r.randrange(4)
        body = [self.r.choice(self.CODE_LINES) for _ in range(k)]
        if self.style == "format":
            body = [b for b in body if "\t" not in b]
        if self.r.random() < 0.3 and body:
            body.insert(self.r.randrange(len(body)), "")
        # never a run of the fence character as long as the fence at a line start
        body = [b for b in body if not b.lstrip(" ").startswith(ch * n)]
        if self.style == "format" and body and body[-1] == "":
            body = body[:-1]
        cls = ' class="language-%s"' % esc(lang) if lang else ""
        html = "<pre><code%s>%s</code></pre>\n" % (cls, "".join(esc(b) + "\n" for b in body))
        return [ch * n + ((" " if self.r.random() < 0.5 or self.style == "format" else "") + info if info else "")] + body + [ch * n], html

    def indented(self):
        k = 1 + self.r.randrange(3)
        body = [self.r.choice([c for c in self.CODE_LINES if not c.startswith(" ") and "\t" not in c]) for _ in range(k)]
        return ["    " + b for b in body], "<pre><code>%s</code></pre>\n" % "".join(esc(b) + "\n" for b in body)

    def htmlblock(self):
        opts = [(["<div>", "hello <b>world</b>", "</div>"]), (["<table><tr><td>", "cell", "</td></tr></table>"]), (["<!-- a comment", "over lines -->"]), (["<div class=\"c\">*not emph*</div>"])]
        ls = self.r.choice(opts)
        return list(ls), "\n".join(ls) + "\n"

    def quote(self, depth):
        lines, html = self.blocks(depth + 1, 1 + self.r.randrange(3), in_container=True)
        out = []
        for l in lines:
            if self.style == "format":
                out.append("> " + l if l else ">")
            elif depth == 0 and self.toplevel and l.startswith("  ") and self.r.random() < 0.5:
                # a tab after '>' at column 0 reaches the tab stop at column 4: one column is the optional space, two remain
                out.append(">\t" + l[2:])
            else:
                out.append((">" if self.r.random() < 0.15 and l and not l.startswith((" ", "\t")) else "> ") + l if l else self.r.choice([">", "> "]))
        return out, "<blockquote>\n%s</blockquote>\n" % html

    def lst(self, depth):
        ordered = self.r.random() < 0.4
        loose = self.r.random() < 0.5
        nitems = 1 + self.r.randrange(3)
        if ordered:
            start = self.r.choice([1, 1, 2, 7, 10, 0, 123456789])
            delim = self.r.choice(".)")
        else:
            bullet = self.r.choice("-+*")
        pad = 1 if self.style == "format" else 1 + self.r.randrange(4)
        out, html_items = [], []
        for i in range(nitems):
            marker = ("%d%s" % (start + i, delim)) if ordered else bullet
            width = len(marker) + pad
            saved = self.toplevel
            self.toplevel = False
            if loose:
                nb = 1 + self.r.randrange(2 if depth >= 2 else 3)
                if nitems == 1:
                    nb = 2      # a one-item list is loose only when its item holds two blocks separated by a blank line
                lines, h = self.blocks(depth + 1, nb, in_container=True, first_in_item=True, avoid=(bullet if not ordered else ""))
                item_html = "<li>\n%s</li>\n" % h
            else:
                m, hh = self.para_lines() if self.style != "format" else self.line()
                lines = m.split("\n")
                item_html = "<li>%s</li>\n" % hh
                if depth < 2 and self.style != "format" and self.r.random() < 0.2:
                    # nested tight list directly under the paragraph
                    sub, subh = self.lst_tight_simple(avoid=(bullet if not ordered else ""))
                    lines += sub
                    item_html = "<li>%s\n%s</li>\n" % (hh, subh)
            self.toplevel = saved
            first, rest = lines[0], lines[1:]
            out.append(marker + " " * pad + first)
            for l in rest:
                out.append((" " * width + l) if l else "")
            if loose and i < nitems - 1:
                out.append("")
            html_items.append(item_html)
        tag = "ol" if ordered else "ul"
        attr = ' start="%d"' % start if ordered and start != 1 else ""
        return out, "<%s%s>\n%s</%s>\n" % (tag, attr, "".join(html_items), tag)

    def lst_tight_simple(self, avoid):
        bullet = self.r.choice([b for b in "-+*" if b != avoid])
        n = 1 + self.r.randrange(2)
        out, hs = [], []
        for _ in range(n):
            m, h = self.line()
            out.append(bullet + " " + m)
            hs.append("<li>%s</li>\n" % h)
        return out, "<ul>\n%s</ul>" % "".join(hs)

    def blocks(self, depth, n, in_container=False, first_in_item=False, avoid=""):
        lines, html = [], ""
        prev = None
        for i in range(n):
            for _ in range(20):
                kinds = ["para", "para", "atx", "setext", "thematic", "fenced", "indented", "html"]
                if depth < 3:
                    kinds += ["quote", "list", "list"]
                k = self.r.choice(kinds)
                if k == "indented" and (i == 0 and first_in_item or prev in ("list", "para_lazy") or (in_container and first_in_item and i == 0)):
                    continue
                if k == "indented" and prev in ("list", "indented"):
                    continue
                if k == "list" and prev == "list":
                    continue
                if k == "thematic" and i == 0 and first_in_item:
                    continue
                if k == "html" and self.style == "format" and in_container:
                    continue
                if k == "list" and self.style == "format" and first_in_item and False:
                    continue
                if k == "indented" and self.style == "format" and in_container:
                    continue
                res = getattr(self, {"para": "paragraph", "atx": "atx", "setext": "setext", "fenced": "fenced", "indented": "indented", "html": "htmlblock"}.get(k, "paragraph"))() if k in ("para", "atx", "setext", "fenced", "indented", "html") else \
                    self.thematic(avoid) if k == "thematic" else self.quote(depth) if k == "quote" else self.lst(depth)
                if res is None:
                    continue
                bl, bh = res
                # a block that starts a list item must not begin with something that changes the item's structure
                if i == 0 and first_in_item and (not bl[0] or bl[0].startswith((" ", "\t"))):
                    continue
                break
            else:
                bl, bh = self.paragraph()
                k = "para"
            if lines:
                lines.append("")
            lines += bl
            html += bh
            prev = k
        return lines, html

    def twin_code_blocks(self):
        """two top-level fenced code blocks of exactly the same length, the second of which contains a line made of fence
        characters (state carried from one block to the next must not leak)"""
        ch = self.r.choice("`~")
        L = 3 + self.r.randrange(3)
        first = "".join(self.r.choice("abcxyz") for _ in range(L))
        second = ch * L
        n1, n2 = 3, L + 1
        # same total length: pad the first block's fence to the second's
        b1 = [ch * n2, first, ch * n2]
        b2 = [ch * n2, second, ch * n2]
        h = "<pre><code>%s\n</code></pre>\n" % esc(first) + "<p>%s</p>\n" % "b" + "<pre><code>%s\n</code></pre>\n" % esc(second)
        return b1 + ["", "b", ""] + b2, h

    def document(self):
        n = 1 + self.r.randrange(4)
        lines, html = self.blocks(0, n)
        if self.r.random() < 0.08:
            tl, th = self.twin_code_blocks()
            lines = lines + [""] + tl
            html += th
        if self.defs:
            lines.append("")
            for label, d, t in self.defs:
                s = "[%s]: %s" % (label, d)
                if t is not None:
                    s += ' "%s"' % t if '"' not in t else " '%s'" % t
                lines.append(s)
                if self.style != "format" and self.r.random() < 0.3:
                    lines.append("")
        eol = "\n"
        if self.style == "any" and self.r.random() < 0.15:
            eol = "\r\n"
        md = eol.join(lines) + (eol if self.style == "format" or self.r.random() < 0.85 else "")
        if eol == "\r\n":
            html = html  # line endings copied through inside code blocks are normalised by the comparison? no: keep LF docs for code
        return md, html


def documents(seed, n, style="any"):
    rng = random.Random(seed ^ 0xd0c)
    out = []
    seen = set()
    while len(out) < n:
        g = G(rng, style)
        md, html = g.document()
        if "\r\n" in md and ("<pre>" in html or "<div" in html or "<table" in html or "<!--" in html):
            # CRLF is copied through verbatim text; keep those documents LF so that the denotation stays exact
            md = md.replace("\r\n", "\n")
        b = md.encode("utf-8")
        if b in seen:
            continue
        seen.add(b)
        out.append((b, html.encode("utf-8")))
    return out


if __name__ == "__main__":
    import sys
    for md, html in documents(int(sys.argv[1]) if len(sys.argv) > 1 else 1, 3, sys.argv[2] if len(sys.argv) > 2 else "any"):
        print(md.decode()); print("-----"); print(html.decode()); print("=====")
