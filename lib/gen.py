"""Case generators.  Every random choice derives from one random.Random(seed)."""
import os, random, itertools

VERIF = os.path.dirname(os.path.dirname(os.path.abspath(__file__)))

TOKENS = ["a", "b", "c", "x", " ", " ", "  ", "   ", "    ", "\n", "\n", "\n", "\n\n", "\r\n", "\r", "\t", "> ", ">", "- ", "+ ", "* ", "1. ", "2) ", "10. ",
          "# ", "## ", "#", "*", "**", "***", "_", "__", "`", "``", "```", "```\n", "~~~", "~~~\n", "[", "]", "](", "(", ")", "<", ">", ":", "\\", "&amp;",
          "&#65;", "&#x41;", "&notit;", "&", ";", "é", "ß", " ", " ", "“", "=", "-", "!", "![", "\"", "'", "[a]: /u\n", "[a]: /u \"t\"\n", "[b]: <v w> 't'\n",
          "[a]", "[b]", "[a][a]", "[a][]", "[a][b]", "[A]", "<b>", "</b>", "<b c=\"d\">", "<!-- ", "-->", "<!--> ", "<![CDATA[", "]]>", "<?", "?>", "<!D", "<a href=\"x\">",
          "<script>", "</script>", "<pre>", "</pre>", "<div>\n", "</div>\n", "  \n", "\\\n", "<http://x.y>", "<a@b.c>", "http://x", "===\n", "---\n", "***\n", "___\n",
          "(/u)", "(/u \"t\")", "(<u v>)", "(/u 't\nu')", "\\*", "\\[", "\\]", "\\`", ".", ",", "%", "%41", "%GG", "/u", "\"t\nu\"", "<b\nc>", "`a\nb`", "[a\nb]", "\x00", "0", "9"]
BAD = ["\xff", "\xc3", "\xe2\x82", "\x80", "\xf0\x9f", "\x00\x00", "\x0b", "\x0c", "\x1b", "\x7f"]


def tok_bytes(t):
    return t.encode("utf-8") if all(ord(c) < 128 or ord(c) > 255 for c in t) else t.encode("latin-1") if all(ord(c) < 256 for c in t) and any(t == b for b in BAD) else t.encode("utf-8")


TOK_B = [t.encode("utf-8") for t in TOKENS]
BAD_B = [t.encode("latin-1") for t in BAD]


def soup(rng, nmax=14, bad=0.0, toks=None):
    toks = toks or TOK_B
    n = 1 + rng.randrange(nmax)
    out = bytearray()
    for _ in range(n):
        if bad and rng.random() < bad:
            out += rng.choice(BAD_B)
        else:
            out += rng.choice(toks)
    return bytes(out)


_corpus = None


def corpus():
    """spec examples + recorded past failures (corpus/*.hex), as bytes"""
    global _corpus
    if _corpus is None:
        _corpus = []
        d = os.path.join(VERIF, "corpus")
        for f in sorted(os.listdir(d)):
            if f.endswith(".hex"):
                for line in open(os.path.join(d, f)):
                    line = line.split("#")[0].strip()
                    if line or True:
                        try:
                            _corpus.append(bytes.fromhex(line.split("\t")[0]))
                        except ValueError:
                            pass
    return _corpus


def mutate(rng, b):
    b = bytearray(b)
    for _ in range(1 + rng.randrange(3)):
        op = rng.randrange(6)
        if op == 0 and b:
            i = rng.randrange(len(b)); del b[i:i + 1 + rng.randrange(3)]
        elif op == 1:
            i = rng.randrange(len(b) + 1); b[i:i] = rng.choice(TOK_B)
        elif op == 2 and b:
            i = rng.randrange(len(b)); b[i] = rng.choice(b"\n \t*_`[]()<>#-&\\\"ax")
        elif op == 3:
            lines = bytes(b).split(b"\n")
            if len(lines) > 1:
                i = rng.randrange(len(lines)); lines.insert(i, lines[rng.randrange(len(lines))])
                b = bytearray(b"\n".join(lines))
        elif op == 4:
            lines = bytes(b).split(b"\n")
            pre = rng.choice([b"> ", b"- ", b"  ", b"    ", b"1. ", b"\t"])
            b = bytearray(b"\n".join(pre + l for l in lines))
        elif op == 5 and b:
            # drop the final newline / change line endings
            if b.endswith(b"\n") and rng.random() < 0.5:
                b = b[:-1]
            else:
                b = bytearray(bytes(b).replace(b"\n", rng.choice([b"\r\n", b"\r"])))
    return bytes(b)


def docs(seed, n, bad=0.05, nmax=14, corpus_first=True):
    """the general document stream: corpus first, then a mix of token soup and corpus mutants"""
    rng = random.Random(seed)
    out = []
    c = corpus()
    if corpus_first:
        out.extend(c)
    while len(out) < n + (len(c) if corpus_first else 0):
        r = rng.random()
        if r < 0.6:
            out.append(soup(rng, nmax=nmax, bad=bad if rng.random() < 0.3 else 0.0))
        elif r < 0.9 and c:
            out.append(mutate(rng, rng.choice(c)))
        else:
            out.append(b"".join(soup(rng, nmax=5) + rng.choice([b"\n", b"\n", b"\r\n", b"\n\n"]) for _ in range(1 + rng.randrange(5))))
    return out


def histogram(cases):
    sizes = [len(c) for c in cases]
    h = {"n": len(cases), "bytes_min": min(sizes) if sizes else 0, "bytes_max": max(sizes) if sizes else 0,
         "bytes_mean": round(sum(sizes) / max(1, len(sizes)), 1)}
    feats = {"nul": b"\x00", "cr": b"\r", "tab": b"\t", "quote": b">", "backtick": b"`", "bracket": b"[", "emph": b"*", "lt": b"<", "amp": b"&", "backslash": b"\\"}
    for k, v in feats.items():
        h["with_" + k] = sum(1 for c in cases if v in c)
    h["invalid_utf8"] = sum(1 for c in cases if not _valid(c))
    h["no_final_newline"] = sum(1 for c in cases if c and c[-1:] not in (b"\n", b"\r"))
    return h


def _valid(b):
    try:
        b.decode("utf-8")
        return True
    except UnicodeDecodeError:
        return False


def strings_over(alphabet, maxlen):
    """all strings over alphabet (list of bytes) with 1 <= length <= maxlen"""
    for n in range(1, maxlen + 1):
        for t in itertools.product(alphabet, repeat=n):
            yield b"".join(t)
