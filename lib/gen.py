"""Case generators.  Every random choice derives from one random.Random(seed)."""
import os, random, itertools

VERIF = os.path.dirname(os.path.dirname(os.path.abspath(__file__)))

TOKENS = ["a", "b", "c", "x", " ", " ", "  ", "   ", "    ", "\n", "\n", "\n", "\n\n", "\r\n", "\r", "\t", "> ", ">", "- ", "+ ", "* ", "1. ", "2) ", "10. ",
          "# ", "## ", "#", "*", "**", "***", "_", "__", "`", "``", "```", "```\n", "~~~", "~~~\n", "``` &#32;\n", "~~~ &nbsp;\n", "[", "]", "](", "(", ")", "<", ">", ":", "\\", "&amp;",
          "&#65;", "&#x41;", "&notit;", "&", ";", "é", "ß", " ", " ", "“", "=", "-", "!", "![", "\"", "'", "[a]: /u\n", "[a]: /u \"t\"\n", "[b]: <v w> 't'\n",
          "[a]", "[b]", "[a][a]", "[a][]", "[a][b]", "[A]", "<b>", "</b>", "<b c=\"d\">", "<!-- ", "-->", "<!--> ", "<![CDATA[", "]]>", "<?", "?>", "<!D", "<a href=\"x\">",
          "<script>", "</script>", "<pre>", "</pre>", "<div>\n", "</div>\n", "  \n", "\\\n", "<http://x.y>", "<a@b.c>", "http://x", "===\n", "---\n", "***\n", "___\n",
          "(/u)", "(/u \"t\")", "(<u v>)", "(/u 't\nu')", "\\*", "\\[", "\\]", "\\`", ".", ",", "%", "%41", "%GG", "/u", "\"t\nu\"", "<b\nc>", "`a\nb`", "[a\nb]", "\x00", "0", "9",
          "\x0c", "\x0b", "\u0085", "\u2003", "&Tab;", "<script\x0c", "<STYLE\x0c>", "<div><script\x0csrc=x>", "<Strong><Script>", "<DIV><XMP>", "Р", "不", "上", "三", "…", "‡",
          "![*a](/u) b*", "![**a](/u \"t\") b**", "[a][]", "![a][]", "%4\"", "<http://a/%4\"x=y>"]
BAD = ["\xff", "\xc3", "\xe2\x82", "\x80", "\xf0\x9f", "\x00\x00", "\x0b", "\x0c", "\x1b", "\x7f"]


def tok_bytes(t):
    return t.encode("utf-8") if all(ord(c) < 128 or ord(c) > 255 for c in t) else t.encode("latin-1") if all(ord(c) < 256 for c in t) and any(t == b for b in BAD) else t.encode("utf-8")


TOK_B = [t.encode("utf-8") for t in TOKENS]
BAD_B = [t.encode("latin-1") for t in BAD]


def soup(rng, nmax=14, bad=0.0, toks=None):
    toks = toks or TOK_B
    n = 1 + rng.randrange(nmax)
    out = bytearray()
    for _ in range(n):
        if bad and rng.random() < bad:
            out += rng.choice(BAD_B)
        else:
            out += rng.choice(toks)
    return bytes(out)


_corpus = None


def corpus():
    """spec examples + recorded past failures (corpus/*.hex), as bytes"""
    global _corpus
    if _corpus is None:
        _corpus = []
        d = os.path.join(VERIF, "corpus")
        for f in sorted(os.listdir(d)):
            if f.endswith(".hex"):
                for line in open(os.path.join(d, f)):
                    line = line.split("#")[0].strip()
                    if line or True:
                        try:
                            _corpus.append(bytes.fromhex(line.split("\t")[0]))
                        except ValueError:
                            pass
    return _corpus


def mutate(rng, b):
    b = bytearray(b)
    for _ in range(1 + rng.randrange(3)):
        op = rng.randrange(6)
        if op == 0 and b:
            i = rng.randrange(len(b)); del b[i:i + 1 + rng.randrange(3)]
        elif op == 1:
            i = rng.randrange(len(b) + 1); b[i:i] = rng.choice(TOK_B)
        elif op == 2 and b:
            i = rng.randrange(len(b)); b[i] = rng.choice(b"\n \t*_`[]()<>#-&\\\"ax")
        elif op == 3:
            lines = bytes(b).split(b"\n")
            if len(lines) > 1:
                i = rng.randrange(len(lines)); lines.insert(i, lines[rng.randrange(len(lines))])
                b = bytearray(b"\n".join(lines))
        elif op == 4:
            lines = bytes(b).split(b"\n")
            pre = rng.choice([b"> ", b"- ", b"  ", b"    ", b"1. ", b"\t"])
            b = bytearray(b"\n".join(pre + l for l in lines))
        elif op == 5 and b:
            # drop the final newline / change line endings
            if b.endswith(b"\n") and rng.random() < 0.5:
                b = b[:-1]
            else:
                b = bytearray(bytes(b).replace(b"\n", rng.choice([b"\r\n", b"\r"])))
    return bytes(b)


def docs(seed, n, bad=0.05, nmax=14, corpus_first=True):
    """the general document stream: corpus first, then a mix of token soup and corpus mutants"""
    rng = random.Random(seed)
    out = []
    c = corpus()
    fixed = (c + tab_opener_templates() + container_multiline_templates()) if corpus_first else []
    out.extend(fixed)
    while len(out) < n + len(fixed):
        r = rng.random()
        if r < 0.35:
            out.append(soup(rng, nmax=nmax, bad=bad if rng.random() < 0.3 else 0.0))
        elif r < 0.75:
            out.append(structured(rng))
        elif r < 0.92 and c:
            out.append(mutate(rng, rng.choice(c)))
        else:
            out.append(b"".join(soup(rng, nmax=5) + rng.choice([b"\n", b"\n", b"\r\n", b"\n\n"]) for _ in range(1 + rng.randrange(5))))
    return out


def histogram(cases):
    sizes = [len(c) for c in cases]
    h = {"n": len(cases), "bytes_min": min(sizes) if sizes else 0, "bytes_max": max(sizes) if sizes else 0,
         "bytes_mean": round(sum(sizes) / max(1, len(sizes)), 1)}
    feats = {"nul": b"\x00", "cr": b"\r", "tab": b"\t", "quote": b">", "backtick": b"`", "bracket": b"[", "emph": b"*", "lt": b"<", "amp": b"&", "backslash": b"\\"}
    for k, v in feats.items():
        h["with_" + k] = sum(1 for c in cases if v in c)
    h["invalid_utf8"] = sum(1 for c in cases if not _valid(c))
    h["no_final_newline"] = sum(1 for c in cases if c and c[-1:] not in (b"\n", b"\r"))
    return h


def _valid(b):
    try:
        b.decode("utf-8")
        return True
    except UnicodeDecodeError:
        return False


def strings_over(alphabet, maxlen):
    """all strings over alphabet (list of bytes) with 1 <= length <= maxlen"""
    for n in range(1, maxlen + 1):
        for t in itertools.product(alphabet, repeat=n):
            yield b"".join(t)


# ---- structured generator: near-valid multi-line constructs in containers ---------------------------
_MB = [c.encode() for c in ["à", "\u00a0", "\u0085", "\u2028", "\u3000", "だ", "Ł", "ź", "б", "乡", "…", "\u2003", "ſ", "ß", "ς", "µ", "ǅ", "İ"]]
_WORDS = _MB + ["Р".encode(), "不".encode(), "上".encode(), "三".encode(), "…".encode(), b"*a", b"**a", b"_a", b"b*", b"b**", b"b_", b"a", b"foo", b"bar", b"b c", b"x", "é".encode(), b"1", b"#", b"*a*", b"_b_", b"`c`", b"\\*", b"&amp;", b"<b>", b"a*", b"_", b"!", b"]", b"["]
_LABELS = [b"x\x00y", b"\x00", b"a\x00\x00b", b"foo", b"bar", b"Foo", b"bar baz", b"a", "ß".encode(), b"x y", b"1", "straße".encode(), b"STRASSE", "ΟΔΟΣ".encode(), "οδος".encode(), "ſ".encode(), b"S", "µ".encode(), "Μ".encode()]
_DESTS = ["/wiki/a…b".encode(), "/США".encode(), "/a‡".encode(), b"/ux\\", b"<v\\", b"/\xc5\x81", "/б乡".encode(), b"/url", b"/u", b"<v w>", b"<>", b"http://x.y/z", b"/a(b)c", b"/a\\)b", b"<a\\>b>", b"/u%20v", b"#f"]
_TITLES = [b"\"t\\", b"'t\\", b"(t\\", b"\"t\"", b"'t'", b"(t)", b"\"t u\"", b"'a \"q\" b'", b"\"t", b"(t (u) v)", b"\"&amp;\\\"\"", b"''"]


def _inline_template(rng):
    """a construct as a list of atoms between which line breaks may be inserted"""
    k = rng.choice([0, 0, 1, 1, 2, 3, 4, 5, 6, 7, 8, 9, 9, 9, 10, 11, 12, 13])
    w = lambda: rng.choice(_WORDS)
    lab = lambda: rng.choice(_LABELS)
    if k == 0:      # inline link / image
        t = [rng.choice([b"[", b"![", b"["]), w(), b"]", b"(", rng.choice(_DESTS)]
        if rng.random() < 0.6:
            t += [b" ", rng.choice(_TITLES)]
        return t + [b")"]
    if k == 1:      # full reference
        l = lab()
        return [rng.choice([b"[", b"!["]), w(), b"]", b"["] + _split_words(l) + [b"]"]
    if k == 2:      # collapsed / shortcut
        l = lab()
        return [b"["] + _split_words(l) + [b"]"] + ([b"[", b"]"] if rng.random() < 0.5 else [])
    if k == 3:      # code span
        n = rng.choice([1, 1, 2, 3])
        return [b"`" * n, w(), b" ", w(), b"`" * (n if rng.random() < 0.85 else n + 1)]
    if k == 4:      # raw html tag
        return [b"<", rng.choice([b"b", b"a", b"span", b"x-y", b"B"]), b" ", b"c", b"=", rng.choice([b"\"d\"", b"'d e'", b"d", b"\"d"]), rng.choice([b">", b"/>", b" >"])]
    if k == 5:      # comment / PI / CDATA / declaration
        o, c = rng.choice([(b"<!--", b"-->"), (b"<?", b"?>"), (b"<![CDATA[", b"]]>"), (b"<!X", b">"), (b"<!--", b"->")])
        return [o, b" ", w(), b" ", w(), b" ", c]
    if k == 6:      # autolink
        return [b"<", rng.choice([b"http://a.b/c", b"a@b.c", b"x:y z", b"ab:", b"a+b.c-d://e", b"http://a/%4\"onmouseover=alert(1)", b"x:%\"", b"ab:%a'b", b"http://a/%zz\"", "http://a/…".encode(), b"x:%4"]), b">"]
    if k == 7:      # emphasis runs
        d = rng.choice([b"*", b"**", b"_", b"__", b"***"])
        return [d, w(), b" ", w(), rng.choice([d, d, b"*", b"_"])]
    if k == 8:      # hard break / backslash / entity at line end
        return [w(), rng.choice([b"  ", b"\\", b"   ", b" \\", b"&#10;", b" "]), b"\n", w()]
    if k == 9:      # nested bracket constructs: links / images / reference links inside one another, depth up to 4
        def nest(d):
            if d == 0 or rng.random() < 0.25:
                return [w()]
            inner = nest(d - 1)
            if rng.random() < 0.4:
                inner = inner + [b" "] + nest(d - 1)
            opener = rng.choice([b"[", b"![", b"["])
            tail = rng.choice([[b"(", rng.choice(_DESTS), b")"], [b"(", b"/u", b" ", b"\"t\"", b")"], [b"[", rng.choice(_LABELS), b"]"], [b"[", b"]"], []])
            return [opener] + inner + [b"]"] + tail
        return nest(1 + rng.randrange(4))
    if k == 10:     # entity forms
        return [rng.choice([b"&amp;", b"&#65;", b"&#x41;", b"&#0;", b"&#xD800;", b"&#1234567;", b"&nosuch;", b"&amp", b"&#;", b"&copy;"])]
    if k == 11:     # unbalanced brackets
        return [rng.choice([b"[", b"![", b"]", b"[[", b"]]", b"](", b"]["]), w(), rng.choice([b"]", b"](", b")", b"[", b""])]
    if k == 13:     # an unmatched emphasis opener inside a link / image description, its closer after the construct
        d = rng.choice([b"*", b"**", b"_", b"__"])
        return [rng.choice([b"![", b"[", b"!["]), d + w(), b"]", b"(", rng.choice(_DESTS)] + ([b" ", rng.choice(_TITLES)] if rng.random() < 0.4 else []) + [b")", b" ", w() + d]
    if k == 12:     # link with label that looks like definition
        return [b"[", w(), b"]", b":", b" ", rng.choice(_DESTS)]
    return [w()]


def _split_words(b):
    out = []
    for i, p in enumerate(b.split(b" ")):
        if i:
            out.append(b" ")
        out.append(p)
    return out


def _definition(rng):
    t = [b"[", ] + _split_words(rng.choice(_LABELS)) + [b"]", b":"]
    if rng.random() < 0.8:
        t.append(b" ")
    t.append(rng.choice(_DESTS))
    r = rng.random()
    if r < 0.5:
        t += [b" ", rng.choice(_TITLES)]
    elif r < 0.6:
        t += [rng.choice(_TITLES)]        # no space before the title
    if rng.random() < 0.2:
        t += [b" ", rng.choice(_WORDS)]      # trailing garbage
    return t


def _break_atoms(rng, atoms, pbreak):
    """join atoms, inserting a line break (with continuation indent) at random gaps and inside spaces"""
    out = bytearray()
    for i, a in enumerate(atoms):
        if i and rng.random() < pbreak:
            out += b"\n" + rng.choice([b"", b"", b" ", b"  ", b"   ", b"    ", b"\t", b"     "])
        if a == b" " and rng.random() < pbreak:
            out += rng.choice([b"\n", b" \n", b"\n ", b"\n\n"])
            continue
        out += a
    return bytes(out)


def _paragraph(rng):
    parts = []
    n = 1 + rng.randrange(3)
    for _ in range(n):
        if rng.random() < 0.25:
            parts.append(rng.choice(_WORDS))
        else:
            parts.append(_break_atoms(rng, _inline_template(rng), rng.choice([0.0, 0.15, 0.4])))
        parts.append(rng.choice([b" ", b" ", b" ", b"", b"", b"\n", b"\n", b"  \n", b"  \t\n", b" \t \n", b"\t  \n", b"   \n", b"\\\n", b"\t\n"]))
    return b"".join(parts).rstrip(b"\n ") + b"\n"


def _block(rng, depth):
    r = rng.random()
    if r < 0.35:
        return _paragraph(rng)
    if r < 0.55:
        # definitions, possibly several, possibly followed directly by text or an underline
        out = b""
        for _ in range(1 + rng.randrange(3)):
            out += _break_atoms(rng, _definition(rng), rng.choice([0.0, 0.2, 0.5])) + b"\n"
        tail = rng.random()
        if tail < 0.3:
            out += rng.choice([b"", b" ", b"  ", b"    "]) + _paragraph(rng)
        elif tail < 0.45:
            out += rng.choice([b"===\n", b"---\n", b"- - -\n"])
        return out
    if r < 0.62:
        return rng.choice([b"# ", b"## ", b"###### ", b"#", b"#\t"]) + _paragraph(rng).replace(b"\n", b" ").rstrip() + rng.choice([b"\n", b" #\n", b" ##  \n", b"\\#\n", b"#\n"])
    if r < 0.68:
        return _paragraph(rng) + rng.choice([b"===\n", b"---\n", b"=\n", b"--  \n", b"   ===\n", b"    ===\n"])
    if r < 0.75:
        f = rng.choice([b"```", b"~~~", b"````", b"~~~~"])
        body = b"".join(rng.choice([b"x\n", b"\n", b"  y\n", b"```\n", b"~~~\n", b"<b>\n", b"\tz\n"]) for _ in range(rng.randrange(4)))
        return rng.choice([b"", b" ", b"   "]) + f + rng.choice([b" C:\\temp\\dir extra", b" tex\\a", b"a\\b\\*c", b" w&amp;\\q x", b" x\\", b"", b" go", b"go x", b" \\*", b" &#32;", b"&nbsp;", b" &Tab; x", b" a&amp;b", b" \\ ", b"&#x20;", b" go\xc2\xa0", b"\xc3\xa0", b" x \xe3\x81\xa0 ", b"\xc2\xa0", b"\x0c", b" \x0b", "\u2003".encode(), b"&Tab;", b" &nbsp; "]) + b"\n" + body + (rng.choice([b"", b"  "]) + f + rng.choice([b"", b"`", b" ", b" x"]) + b"\n" if rng.random() < 0.7 else b"")
    if r < 0.80:
        return b"".join(rng.choice([b"    ", b"\t", b"     ", b"  \t"]) + rng.choice([b"code", b"- x", b"> y", b"<b>", b"", b"\x0c", b"\x0b", b"\xc2\xa0", b"\xc2\x85", "\u2003".encode(), b"a"]) + b"\n" for _ in range(1 + rng.randrange(3)))
    if r < 0.86:
        o = rng.choice([b"<div>", b"<pre>", b"<!--", b"<?php", b"<!DOCTYPE x>", b"<![CDATA[", b"<b>", b"</x>", b"<script>", b"<table><tr>"])
        return o + b"\n" + _paragraph(rng) + rng.choice([b"", b"</div>\n", b"</pre>\n", b"-->\n", b"?>\n", b"]]>\n", b"\n", b"</script>x\n"])
    if r < 0.90:
        return rng.choice([b"***\n", b"---\n", b"___\n", b"* * *\n", b" - - -\n", b"**\n"])
    if depth < 3:
        inner = b"\n".join(_block(rng, depth + 1).rstrip(b"\n") for _ in range(1 + rng.randrange(2))) + b"\n"
        if rng.random() < 0.5:
            # block quote, with lazy continuation on some lines
            lines = inner.split(b"\n")[:-1]
            out = []
            for i, l in enumerate(lines):
                lazy = i > 0 and rng.random() < 0.15
                out.append(l if lazy else rng.choice([b"> ", b"> ", b">", b" > ", b">\t"]) + l)
            return b"\n".join(out) + b"\n"
        marker = rng.choice([b"-", b"+", b"*", b"1.", b"2)", b"10.", b"0.", b"123456789.", b"1234567890."])
        pad = rng.choice([1, 1, 2, 3, 4, 5])
        width = len(marker) + (pad if pad <= 4 else 1)
        lines = inner.split(b"\n")[:-1]
        out = []
        for i, l in enumerate(lines):
            if i == 0:
                out.append(marker + b" " * pad + l)
            else:
                k = rng.random()
                ind = width if k < 0.7 else rng.choice([0, 1, width - 1, width + 1, width + 4])
                t = rng.random()
                pre = b"\t" if t < 0.12 else (b" \t" if t < 0.18 else b" " * max(0, ind))
                out.append((pre + l) if l else b"")
        return b"\n".join(out) + b"\n"
    return _paragraph(rng)


def structured(rng):
    n = 1 + rng.randrange(4)
    parts = []
    for _ in range(n):
        parts.append(_block(rng, 0))
        parts.append(rng.choice([b"\n", b"\n", b"", b"\n\n", b" \n"]))
    doc = b"".join(parts)
    if rng.random() < 0.3:
        # definitions for the labels used, after the uses
        for _ in range(1 + rng.randrange(2)):
            doc += _break_atoms(rng, _definition(rng), 0.1) + b"\n"
    r = rng.random()
    if r < 0.12:
        doc = doc.replace(b"\n", b"\r\n")
    elif r < 0.18:
        doc = doc.replace(b"\n", b"\r")
    if rng.random() < 0.2:
        doc = doc.rstrip(b"\r\n")
    if rng.random() < 0.05:
        i = rng.randrange(len(doc) + 1)
        doc = doc[:i] + rng.choice([b"\x00", b"\xff", b"\xe2\x82", b"\t"]) + doc[i:]
    return doc


def tab_opener_templates():
    """container prefix ending in a partially consumed tab x block opener (exhaustive product, about 400 documents): where a column
    count and a byte count differ for the block starts"""
    prefixes = [b">\t", b"> \t", b">  \t", b">\t ", b"- a\n\n \t", b"- a\n\n  \t", b"1. a\n\n  \t", b"1. a\n\n   \t", b"-\t", b"- \t", b"1.\t", b">>\t", b"> -\t"]
    openers = [b"- ", b"+ ", b"* ", b"-", b"1. ", b"9) ", b"12. ", b"1.", b"# ", b"## h #", b"> ", b">", b"```", b"~~~ x", b"---", b"* * *", b"<div>", b"[a]: /u", b"a\n===", b"    c"]
    rests = [b"foo\n", b"\n"]
    return [p + o + r for p in prefixes for o in openers for r in rests]


def container_multiline_templates():
    """container x inline (or definition) construct that crosses a line break x how the continuation line is indented
    (tabs consumed partially by the container, spaces, nothing): where the multi-line reader meets Indent nodes"""
    conts = {b"- ": [b"\t", b" \t", b"  \t", b"\t\t", b"  ", b"    ", b"   \t"],
             b"1. ": [b"\t", b" \t", b"   \t", b"\t\t", b"   ", b"     "],
             b"10. ": [b"\t", b"  \t", b"    ", b"\t "],
             b"> ": [b"> ", b">", b">\t", b"> \t", b">  ", b"", b"   > "],
             b">": [b">", b">\t", b"> "]}
    pairs = [(b"[a](/u \"title", b"more\") z"), (b"x <a", b"href='y'> z"), (b"[foo]: /url 'title", b"more'\n\n[foo]"), (b"[a](/u", b"\"t\") z"),
             (b"`co", b"de` z"), (b"[a][b", b"c] z\n\n[b c]: /u"), (b"<!-- x", b"y --> z"), (b"*a", b"b* z"), (b"[a](<u", b"v>) z"), (b"[a](/u 't&amp;", b"y') z"),
             (b"[a](/u '", b"foo') z"), (b"[a]: /u \"x&quot;", b"y\"\n\n[a]"), (b"<b c=\"d", b"e\"> z"), (b"a\\", b"b"), (b"a  ", b"b"),
             (b"![a `co", b"de` b](/u) z"), (b"![a", b"b](/u \"t\") z"), (b"![x *a", b"b* `c", b"d`](/u)")[:2], (b"[![a", b"b](/i)](/u) z")]
    return [m + a + b"\n" + c + b2 + b"\n" for m, cs in conts.items() for c in cs for a, b2 in pairs]


def final_newline_templates():
    """documents without a final line ending whose last bytes end an inline or block construct (the final-newline clause of C14)"""
    ends = [b"[a][]", b"![a][]", b"[a]", b"[a][a]", b"`x`", b"``x", b"*x*", b"**x", b"<b>", b"<b", b"[a](/u)", b"[a](/u", b"&amp;", b"&amp", b"\\", b"x  ", b"a\\",
            b"<http://x.y>", b"<a@b.c", b"![x](/u \"t\")", b"x\t", b"]", b"[", b"# see [a][]", b"# x #", b"#", b"===", b"---", b"```", b"~~~ x", b"    c", b"<div>", b"<!-- x", b"<?", b"[b]: /v", b"[b]: /v \"t", b"[b]:", b"-", b"+", b"*", b"1.", b"2)", b"- a\n-", b"1. a\n2.", b"- a\n  -", b"#", b">", b"-\t", b"* *"]
    pres = [b"", b"> ", b"- ", b"1. ", b"> - ", b"x\n"]
    return [b"[a]: /u\n\n" + p + e for p in pres for e in ends]


def tab_nul_templates():
    """container prefix x construct opener x continuation indent with tabs x rest with NUL bytes (exhaustive product, about 4000 documents):
    partial tabs inside containers and padded NULs are where the byte reader's virtual positions matter"""
    prefixes = [b"", b"- ", b"-  ", b"-   ", b"-    ", b"1. ", b"1.  ", b"1.   ", b"10. ", b"> ", b">", b">  "]
    firsts = [b"[a", b"[a\x00", b"[a]:", b"a", b"`a", b"<b", b"[a](", b"*a"]
    conts = [b"", b"\t", b"\t\t", b" \t", b"  \t", b" \t\t", b"   \t", b"\t \t"]
    rests = [b"b\x00]", b"\x00b]", b"\x00b]: /url", b"/u\x00rl", b"b]", b"\x00", b"b\x00\x00c]", b"x`", b"c>"]
    out = []
    for p in prefixes:
        for f in firsts:
            for c in conts:
                for r in rests:
                    out.append(p + f + b"\n" + c + r + b"\n")
    return out
