"""Run the Go harness and the OCaml model driver on lists of cases."""
import os, subprocess, tempfile
from build import BIN, WORK

NPROC = int(os.environ.get("VERIF_JOBS", "16"))


def _run_one(binary, mode, lines, extra=()):
    data = ("\n".join(lines) + "\n").encode()
    p = subprocess.run([os.path.join(BIN, binary), mode, *extra], input=data, stdout=subprocess.PIPE, stderr=subprocess.PIPE, timeout=7200)
    out = p.stdout.decode("utf-8", "replace").split("\n")
    if out and out[-1] == "":
        out.pop()
    if len(out) != len(lines):
        # the process died: pad so the caller sees which case killed it
        out = out + ["CRASH rc=%d %s" % (p.returncode, p.stderr.decode("utf-8", "replace")[-300:].replace("\n", " "))] * (len(lines) - len(out))
    return out


def run(binary, mode, cases, shards=None):
    """cases: list of 'hex' or 'hex\\tparam' strings; returns one output line per case."""
    if not cases:
        return []
    n = len(cases)
    shards = shards or (1 if n < 400 else min(NPROC, (n + 199) // 200))
    if shards == 1:
        return _run_one(binary, mode, cases)
    from concurrent.futures import ThreadPoolExecutor
    size = (n + shards - 1) // shards
    chunks = [cases[i:i + size] for i in range(0, n, size)]
    with ThreadPoolExecutor(max_workers=shards) as ex:
        outs = list(ex.map(lambda c: _run_one(binary, mode, c), chunks))
    return [l for o in outs for l in o]


def harness(mode, cases, **kw):
    return run("harness", mode, cases, **kw)


def model(mode, cases, **kw):
    return run("drv", mode, cases, **kw)


def hexs(b):
    return bytes(b).hex()
