"""Common machinery of the checks: proof-obligation audit, correspondence, judging, failing-input
search, shrinking, known findings, evidence, outcome."""
import json, os, re, subprocess, sys, time, hashlib, random
import build, run, gen

VERIF = build.VERIF
EVID = os.path.join(VERIF, "evidence")
REPLAYS = os.path.join(VERIF, "replays")

TRUSTED_BASE = [
    "Coq 8.16.1 kernel (coqc, incl. the vm_compute machine); no native_compute; coqchk re-check in the thorough tier",
    "axioms: none (every audited theorem prints 'Closed under the global context')",
    "extraction: ExtrOcamlBasic only (Extract Inductive bool/option/unit/list/prod/sumbool/sumor/comparison), no Extract Constant; OCaml 4.13.1",
    "go/gen translator (constants, classifier bodies, entity/Unicode/fold tables probed from the linked libraries)",
    "go/harness (observation printer, oracles), ocaml/drv.ml (hex and S-expression I/O), Python orchestration in lib/",
    "hand-written Gallina model of the Go code: tied to /repo by the correspondence run, not verified against the Go semantics",
]


# ---------------------------------------------------------------- proof obligations
def coqchk(prop, obligations):
    """thorough tier: independent re-check of the compiled theorem files (and everything they depend on) with coqchk;
    returns (ok, report)"""
    byfam = {}
    for fam, mod, thm in obligations:
        if mod not in byfam.setdefault(fam, []):
            byfam[fam].append(mod)
    ok, rep = True, []
    for fam, mods in byfam.items():
        rc, out = build.sh("timeout 3000 coqchk -silent -o -Q %s '' %s" % (os.path.join(build.COQ, fam), " ".join(mods)), cwd=os.path.join(build.COQ, fam), timeout=3100)
        tail = out[out.find("CONTEXT SUMMARY"):] if "CONTEXT SUMMARY" in out else out[-1500:]
        rep.append("%s: rc=%d %s" % (fam, rc, " ".join(tail.split())[:600]))
        if rc != 0 or "Axioms: <none>" not in " ".join(tail.split()).replace("* Axioms: <none>", "Axioms: <none>"):
            ok = False
    return ok, rep


def audit(prop, obligations, status):
    """obligations: list of (family, module, theorem).  Compiles a small file that Requires the modules and
    prints the assumptions of every theorem; returns (results, log) with results[(fam,mod,thm)] = True/False."""
    res = {}
    logs = []
    byfam = {}
    for fam, mod, thm in obligations:
        byfam.setdefault(fam, []).append((mod, thm))
    adir = os.path.join(build.WORK, "audit")
    os.makedirs(adir, exist_ok=True)
    # the audit of an unchanged build (same content hash of /repo's tree and of every source under /verif) with the same
    # obligations gives the same answer: reuse it (only a fully successful audit is remembered)
    cpath = os.path.join(adir, "cache_%s.json" % prop)
    ckey = [status.get("key"), [list(o) for o in obligations]]
    if status.get("key") and not status.get("errors"):
        try:
            c = json.load(open(cpath))
            if c.get("ckey") == ckey and all(os.path.exists(os.path.join(build.COQ, f, m + ".vo")) for f, m, _ in obligations):
                return {tuple(o): True for o in obligations}, ["audit reused from the identical build (content hash %s)" % str(status.get("key"))[:12]] + c.get("log", [])
        except Exception:
            pass
    for fam, items in byfam.items():
        famdir = os.path.join(build.COQ, fam)
        missing = set(status.get("coq", {}).get(fam, {}).get("missing", ["*"]))
        ok_items = []
        for mod, thm in items:
            if mod in missing or "*" in missing or not os.path.exists(os.path.join(famdir, mod + ".vo")):
                res[(fam, mod, thm)] = False
                logs.append("%s/%s.vo not built: %s undischarged" % (fam, mod, thm))
            else:
                ok_items.append((mod, thm))
        if not ok_items:
            continue
        mods = []
        for mod, _ in ok_items:
            if mod not in mods:
                mods.append(mod)
        src = "".join("Require %s.\n" % m for m in mods)
        for mod, thm in ok_items:
            src += 'Goal True. idtac "@@ %s.%s". exact I. Qed.\nPrint Assumptions %s.%s.\n' % (mod, thm, mod, thm)
        path = os.path.join(adir, "Audit_%s_%s.v" % (prop, fam))
        open(path, "w").write(src)
        rc, out = build.sh("timeout 600 coqc -Q %s '' %s" % (famdir, path), cwd=adir)
        logs.append(out[-4000:])
        # split output at the markers
        parts = re.split(r"@@ (\S+)\n", out)
        seen = {}
        for i in range(1, len(parts) - 1, 2):
            seen[parts[i]] = parts[i + 1]
        if rc != 0:
            # one unresolved name or one module that fails to load must not hide the state of the other theorems:
            # audit them one by one
            seen = {}
            ok1 = {}
            for mod, thm in ok_items:
                p1 = os.path.join(adir, "Audit1_%s_%s_%s_%s.v" % (prop, fam, mod, re.sub(r"[^A-Za-z0-9_]", "_", thm)))
                open(p1, "w").write("Require %s.\nPrint Assumptions %s.%s.\n" % (mod, mod, thm))
                rc1, out1 = build.sh("timeout 600 coqc -Q %s '' %s" % (famdir, p1), cwd=adir)
                seen["%s.%s" % (mod, thm)] = out1
                ok1[(mod, thm)] = rc1 == 0
        for mod, thm in ok_items:
            txt = seen.get("%s.%s" % (mod, thm), "")
            good = (rc == 0) or ok1.get((mod, thm), False) if rc != 0 else True
            res[(fam, mod, thm)] = bool(good) and ("Closed under the global context" in txt)
            if not res[(fam, mod, thm)]:
                logs.append("%s.%s: %s" % (mod, thm, txt.strip()[:300] or "not checked (rc=%d)" % rc))
    if obligations and all(res.get(tuple(o)) for o in obligations) and status.get("key") and not status.get("errors"):
        try:
            json.dump({"ckey": ckey, "log": logs[-3:]}, open(cpath, "w"))
        except Exception:
            pass
    return res, "\n".join(logs)


# ---------------------------------------------------------------- known findings
def load_known():
    p = os.path.join(VERIF, "known_findings.json")
    if not os.path.exists(p):
        return []
    return json.load(open(p)).get("findings", [])


def match_known(prop, inp, sig, known):
    for k in known:
        if k.get("status") != "finding" or k.get("property") != prop:
            continue
        if k.get("sig_regex") and not re.search(k["sig_regex"], sig):
            continue
        if k.get("input_regex"):
            if not re.search(k["input_regex"].encode("latin-1"), inp, re.S):
                continue
        if k.get("input_hex") is not None and "input_regex" not in k:
            if bytes.fromhex(k["input_hex"]) != inp:
                continue
        return k
    return None


# ---------------------------------------------------------------- judge + shrink
def judge(prop, cases, mode=None):
    """cases: list of (bytes, param).  Returns list of (index, signature) for failures."""
    mode = mode or ("judge:" + prop)
    lines = [c.hex() + ("\t" + p if p else "") for c, p in cases]
    out = run.harness(mode, lines)
    fails = []
    for i, o in enumerate(out):
        if o != "ok":
            fails.append((i, o[5:] if o.startswith("FAIL ") else o))
    return fails


def sig_class(sig):
    return " ".join(sig.split()[:1])


def shrink(prop, inp, param, sig, mode=None, rounds=40):
    """greedy byte/line deletion while the judge still fails with the same signature class"""
    cls = sig_class(sig)
    cur = inp
    for _ in range(rounds):
        cands = []
        lines = cur.split(b"\n")
        if len(lines) > 1:
            for i in range(len(lines)):
                cands.append(b"\n".join(lines[:i] + lines[i + 1:]))
        step = max(1, len(cur) // 64)
        for i in range(0, len(cur), 1):
            if len(cur) > 200 and i % step:
                continue
            cands.append(cur[:i] + cur[i + 1:])
        if not cands:
            break
        fails = judge(prop, [(c, param) for c in cands], mode)
        nxt = None
        for i, s in fails:
            if sig_class(s) == cls and len(cands[i]) < len(cur):
                nxt = cands[i]
                break
        if nxt is None:
            break
        cur = nxt
    return cur


# ---------------------------------------------------------------- replay + evidence
def write_replay(prop, tier, seed, payload):
    d = os.path.join(REPLAYS, prop)
    os.makedirs(d, exist_ok=True)
    h = hashlib.sha256(json.dumps(payload, sort_keys=True).encode()).hexdigest()[:12]
    path = os.path.join(d, "%s_%s.json" % (tier, h))
    payload = dict(payload, property=prop, tier=tier, seed=seed)
    json.dump(payload, open(path, "w"), indent=1)
    return path


def write_evidence(prop, tier, seed, level, coverage, assumptions, wall, violations):
    os.makedirs(EVID, exist_ok=True)
    ev = {"property_id": prop, "tier": tier, "seed": seed, "level": level, "coverage": coverage,
          "assumptions": assumptions, "wall_s": round(wall, 2), "violations": violations}
    json.dump(ev, open(os.path.join(EVID, prop + ".json"), "w"), indent=1)


def show(b, n=80):
    s = repr(bytes(b[:n]))[2:-1]
    return s + ("…" if len(b) > n else "")


class Job:
    """A batch of cases with (optionally) a correspondence function and (optionally) an oracle mode."""
    def __init__(self, name, cases, corr=None, judge_mode=None, nontrivial=None, mutate=None, shrinkable=True, corr_is_spec=False):
        self.name, self.cases, self.corr, self.judge_mode = name, cases, corr, judge_mode
        # True when the model side of the correspondence IS the property's reference object (e.g. the structural reading of
        # the tree for C10): a difference is then a violation on that very input, not merely a broken tie
        self.corr_is_spec = corr_is_spec
        self.shrinkable = shrinkable    # False when the cases come from a restricted domain that byte deletion would leave
        self.nontrivial = nontrivial or (lambda c: len(c[0]) > 0)
        self.mutate = mutate or (lambda rng, c: (gen.mutate(rng, c[0]), c[1]))


class Check:
    """One property check: obligations [(family, module, theorem)] and jobs(seed, tier) -> [Job]."""
    level = "proof"
    assumptions = []
    obligations = []
    rule = "generated cases; distinct by (bytes, parameter); non-trivial = non-empty input"

    def __init__(self, prop):
        self.prop = prop

    def jobs(self, seed, tier):
        return []

    def extra_coverage(self, st):
        return {}

    def extra_violations(self, st, tier, seed):
        """hook for checks with additional machinery (race runs, effect summary); returns list of (what, detail)"""
        return []

    # ------------------------------------------------------------------
    def main(self, tier, seed, replay=None):
        t0 = time.time()
        prop = self.prop
        st = build.prepare()
        if st.get("go_build") != 0 or not os.path.exists(os.path.join(build.BIN, "harness")):
            print("ERROR: the harness does not build against /repo: " + "; ".join(st.get("errors", []))[:1500])
            path = write_replay(prop, tier, seed, {"broken": "go build of harness against /repo failed", "errors": st.get("errors")})
            print("VIOLATION property=%s replay=%s no-failing-input-found" % (prop, path))
            return 1
        if replay:
            return self.replay(replay)
        known = load_known()
        # 1. proof obligations
        res, alog = audit(prop, self.obligations, st)
        n_obl = len(self.obligations)
        broken_obl = [k for k, v in res.items() if not v]
        chk_report = None
        if tier == "thorough" and not broken_obl:
            okc, chk_report = coqchk(prop, self.obligations)
            if not okc:
                broken_obl = [("coqchk", "independent re-check failed or reports axioms", "; ".join(chk_report)[:300])]
        slow_report = None
        if tier == "thorough" and getattr(self, "slow_files", None) and not broken_obl:
            # bounded-exhaustive theorems that are too slow for the default build (coq/slow, compiled against coq/main)
            slow_report = []
            sdir = os.path.join(build.COQ, "slow")
            for f in self.slow_files:
                rc, out = build.sh("timeout 3000 coqc -Q %s '' -Q . '' %s.v" % (os.path.join(build.COQ, "main"), f), cwd=sdir, timeout=3100)
                ok = rc == 0 and "Closed under the global context" in out and "Axioms:" not in out
                slow_report.append("%s: %s" % (f, "compiled, closed under the global context" if ok else "FAILED " + out[-300:]))
                if not ok:
                    broken_obl.append(("slow", f, "does not compile or is not closed"))
        model_ok = st.get("driver") == 0
        jobs = self.jobs(seed, tier)
        # 2. correspondence, 3. judge
        diffs = []          # (job, index, impl, model, what)
        violations = []     # (job, case, sig)
        spec_violations = []
        known_hits = {}
        n_cases = n_judged = n_fail = 0
        for job in jobs:
            n_cases += len(job.cases)
            if job.corr and model_ok:
                for d in job.corr(job.cases):
                    diffs.append((job,) + tuple(d))
                    if job.corr_is_spec:
                        spec_violations.append((job, job.cases[d[0]], "%s-reference-differs: %s" % (prop, d[3] if len(d) > 3 else "")))
            if job.judge_mode and job.cases:
                n_judged += len(job.cases)
                for i, sig in judge(prop, job.cases, job.judge_mode):
                    n_fail += 1
                    k = match_known(prop, job.cases[i][0], sig, known)
                    if k:
                        known_hits.setdefault(k["id"], (k, job.cases[i], sig))
                    else:
                        violations.append((job, job.cases[i], sig))
        extra = self.extra_violations(st, tier, seed)
        # 4. search when something no longer checks
        searched = 0
        broken = []
        if broken_obl:
            broken.append("theorems no longer checked: " + ", ".join("%s/%s.%s" % k for k in broken_obl))
        if not model_ok:
            broken.append("model/driver does not build: " + "; ".join(st.get("errors", []))[:500])
        if diffs:
            byjob = {}
            for d in diffs:
                byjob[d[0].name] = byjob.get(d[0].name, 0) + 1
            broken.append("correspondence differs: " + ", ".join("%s: %d case(s)" % kv for kv in byjob.items()))
        for what, detail in extra:
            broken.append(what)
        if not violations and spec_violations:
            violations = spec_violations[:1]
        if broken and not violations:
            rng = random.Random(seed * 7919 + 13)
            jj = [j for j in jobs if j.judge_mode]
            # (a) the differing inputs and their neighbourhood, judged with every oracle of the property
            pool = [d[0].cases[d[1]] for d in diffs[:40]]
            for j in jj:
                cand = list(pool)
                for c in pool:
                    for _ in range(15):
                        cand.append(j.mutate(rng, c))
                searched += len(cand)
                for i, sig in judge(prop, cand, j.judge_mode) if cand else []:
                    if not match_known(prop, cand[i][0], sig, known):
                        violations.append((j, cand[i], sig))
                        break
                if violations:
                    break
            # (b) a fresh, larger budget
            if not violations:
                for j in self.jobs(seed + 1000003, "search" if tier == "quick" else tier):
                    if not j.judge_mode or not j.cases:
                        continue
                    searched += len(j.cases)
                    for i, sig in judge(prop, j.cases, j.judge_mode):
                        if not match_known(prop, j.cases[i][0], sig, known):
                            violations.append((j, j.cases[i], sig))
                            break
                    if violations:
                        break
        # 5. outcome
        for kid, (k, c, sig) in sorted(known_hits.items()):
            print("KNOWN-FINDING: property=%s %s (%s; e.g. input %s -> %s)" % (prop, k["what"], kid, show(c[0], 40), sig[:80]))
        rc = 0
        nviol = 0
        if violations:
            job, (c, p), sig = violations[0]
            small = shrink(prop, c, p, sig, job.judge_mode) if (job.shrinkable and "-reference-differs" not in sig) else c
            path = write_replay(prop, tier, seed, {"input_hex": small.hex(), "param": p, "signature": sig, "original_hex": c.hex(),
                                                   "judge_mode": job.judge_mode, "job": job.name, "broken": broken, "corr_job": job.name if "-reference-differs" in sig else None,
                                                   "input_repr": show(small, 200)})
            print("VIOLATION property=%s replay=%s" % (prop, path))
            print("  failing input %s %s: %s" % (show(small), ("[" + p[:60] + "]") if p else "", sig[:300]))
            rc, nviol = 1, len(violations)
        elif broken:
            first = None
            if diffs:
                d = diffs[0]
                c = d[0].cases[d[1]]
                first = {"job": d[0].name, "input_hex": c[0].hex(), "param": c[1], "impl": d[2][:3000], "model": d[3][:3000], "what": d[4] if len(d) > 4 else ""}
            path = write_replay(prop, tier, seed, {"broken": broken, "first_difference": first, "audit_log": alog[-3000:], "searched": searched,
                                                   "extra": [list(e) for e in extra]})
            print("VIOLATION property=%s replay=%s no-failing-input-found" % (prop, path))
            for b in broken:
                print("  " + b[:400])
            if first:
                print("  first differing input (%s) %s %s" % (first["job"], show(bytes.fromhex(first["input_hex"])), first["param"][:60]))
            rc, nviol = 1, 1
        # 6. evidence
        nt = set()
        allcases = []
        for job in jobs:
            for c in job.cases:
                if job.nontrivial(c):
                    nt.add((job.name if job.judge_mode else "", c))
            allcases += job.cases
        samples = []
        for job in jobs:
            for c in (job.cases[:1] + job.cases[len(job.cases) // 2:len(job.cases) // 2 + 1] + job.cases[-1:]):
                samples.append({"job": job.name, "input": show(c[0], 120), "param": c[1][:120]})
        cov = {
            "obligations": n_obl, "discharged": n_obl - len(broken_obl),
            "checker_cmd": "make -C coq/<family> (coq_makefile, full .vo build) + coqc on work/audit/Audit_%s_*.v (Print Assumptions per theorem)" % prop,
            "trusted_base": TRUSTED_BASE,
            "theorems": ["%s/%s.%s" % o for o in self.obligations],
            "evaluations": n_cases + searched, "distinct_nontrivial": len(nt),
            "rule": self.rule,
            "samples": samples[:12] or [{"note": "no generated cases; proof obligations only"}],
            "jobs": [{"name": j.name, "cases": len(j.cases), "correspondence": bool(j.corr), "oracle": j.judge_mode} for j in jobs],
            "correspondence_differences": len(diffs),
            "judged_on_implementation": n_judged, "judge_failures": n_fail, "known_finding_hits": sorted(known_hits),
            "search_cases_after_break": searched,
            "input_histogram": gen.histogram([c[0] for c in allcases]) if allcases else {},
            "build": {"cached": st.get("cached"), "gen_changed": st.get("gen_changed"), "coq_missing": {f: v["missing"] for f, v in st.get("coq", {}).items() if v["missing"]}},
        }
        if chk_report is not None:
            cov["coqchk"] = chk_report
        if slow_report is not None:
            cov["slow_theorems"] = slow_report
        cov.update(self.extra_coverage(st))
        write_evidence(prop, tier, seed, self.level, cov, self.assumptions, time.time() - t0, nviol)
        if rc == 0:
            print("OK property=%s tier=%s obligations=%d/%d cases=%d differences=0 judged=%d known=%d wall=%.1fs" %
                  (prop, tier, n_obl - len(broken_obl), n_obl, n_cases, n_judged, len(known_hits), time.time() - t0))
        return rc

    def replay(self, path):
        r = json.load(open(path))
        if "input_hex" not in r:
            print("replay names a broken obligation/correspondence, no input: %s" % json.dumps(r.get("broken")))
            return 1
        inp = bytes.fromhex(r["input_hex"])
        if r.get("corr_job"):
            for j in self.jobs(r.get("seed", 1), "quick"):
                if j.name == r["corr_job"] and j.corr:
                    d = j.corr([(inp, r.get("param", ""))])
                    if d:
                        print("VIOLATION property=%s replay=%s" % (self.prop, path))
                        print("  input %s [%s]: implementation and reference reading differ (%s)" % (show(inp), r.get("param", ""), d[0][3] if len(d[0]) > 3 else ""))
                        return 1
            print("replay passes: property holds on %s" % show(inp))
            return 0
        fails = judge(self.prop, [(inp, r.get("param", ""))], r.get("judge_mode"))
        if fails:
            print("VIOLATION property=%s replay=%s" % (self.prop, path))
            print("  input %s : %s" % (show(inp), fails[0][1]))
            return 1
        print("replay passes: property holds on %s" % show(inp))
        return 0
