"""Writes /verif/MANIFEST.json from the check definitions in props.py."""
import json, os, sys
sys.path.insert(0, os.path.dirname(os.path.abspath(__file__)))
import props, build

TEXT = {
    "C01": "full proof of the tiling statement on the model for every input (C01_tiling: ordered, disjoint root ranges inside the input, gaps and rest blank, Source = range with NUL replaced, StartLine by line endings, lengths) and for the streaming entry point (parseStream_eq_small); the memory clauses (aliasing, buffer untouched) are observed on the implementation by the oracle; tie: root-block headers through both entry points",
    "C02": "full proof on the model: C02_full = Props.C02_statement (for every input: root clauses, every block and inline span valid, inside its parent, siblings ordered and disjoint, and for valid UTF-8 input every span boundary on a character boundary); tie: span-structure correspondence, the span oracle and the formal statement evaluated on the implementation's trees",
    "C03": "full proof on the model: C03_full = Props.C03_statement (for every input no byte is covered by two leaves and every textual byte by exactly one), composed from the block-layer accounting, the coverage theorem of the inline parser and the entry invariants of the block layer; tie: leaf-span correspondence plus the coverage oracle and the formal statement evaluated on the implementation's trees",
    "C04": "full proof on the model that the whole parse is total for every input: the block layer reaches no panic site and exhausts no fuel (parseBlocks_total), the inline parser exhausts none of its fuels (parseFull_fuel_adequate, parseFull_total); Walk and readline terminate with stated fuel, renderer/formatter models are total; the implementation is run under recover + watchdog in all 30 configurations on hostile inputs; tie: model/implementation correspondence",
    "C05": "full proof on the model: C05_full = Props.C05_statement (for every input the whole node grammar incl. accessor agreement, no link in a link, title-follows-destination); tie: kind/accessor correspondence through both entry points plus the grammar oracle and the formal statement evaluated on the implementation's trees",
    "C06": "partial proof: rendering = denotation proved on the model for multi-block documents of any length over paragraphs, headings, thematic breaks, fenced code with info strings, emphasis paragraphs (= the spec's delimiter procedure) and block quotes of text lines (C06_blocks_ext2), plus a reference slice; for general documents: denotation oracle on serialised abstract documents (lib/docgen.py) plus model/implementation HTML correspondence",
    "C07": "full proof on the model: C07_final (for every input, every reference matcher, every configuration without tag filter, rendered HTML is in the safe grammar); C07_render_safeW holds for every tree whose leaves satisfy bokW and the run evaluates bokW on the implementation's own trees; tie: model renderer on the implementation's tree = implementation's bytes",
    "C08": "full proof on the stream-layer model: readline under any read schedule (readline_sim), whole NextBlock (next_block_sim), whole runs and the fault clause (C08_stream_eq, C08_fault), any block machine satisfying three stated laws; tie: streaming implementation under generated schedules/faults vs the in-memory model on the delivered prefix",
    "C09": "full proof on the model of both clauses as the property states them, for every tab-free document: quoting (parseFull_quote, renderDoc_quote) and list-indenting under any bullet or ordered marker with 1-4 spaces (parseFull_item, renderDoc_item) give one container whose children are the rewritten blocks of D under the explicit position map, and the safe-mode rendering is the container's tags around the renderings of D's blocks (paragraphs without <p> exactly when the one-item list is tight); tie: nesting oracle on the implementation (D vs contents of quote(D) / item(D), safe-mode HTML) plus model/implementation correspondence on each variant",
    "C10": "full proof on the model: Walk with the renderer's callbacks writes exactly the structural reading renderB of the tree, for every block and configuration (C10_appendBlock, walk_is_spec); tie: the structural renderer run on the implementation's own tree dump reproduces the implementation's bytes in all 30 configurations; determinism / tree untouched / joining observed on the implementation",
    "C11": "proof that the openers_bottom search bounds never change the result of process-emphasis (abstract lists of any length, and on the transcription of processEmphasis); full statement proved end to end on a vertical slice (C11_slice2: lines of any length over letters, digits, spaces, '*', '_', most ASCII punctuation, Unicode white space, Unicode punctuation and non-ASCII letters from explicit families parse to exactly the forest the spec's delimiter-run procedure denotes); flanking flags and tokenisation tied by exhaustive correspondence up to a length bound; oracle = independent transcription of the spec procedure without the bound",
    "C12": "partial proof: closure clause for every input and matcher (C12_closure), Extract = first-wins fold in source order; label normalisation = the CommonMark definition for labels in one span, adjacent spans, and spans with gaps (container prefixes, Indent entries) under the entry conditions the block layer establishes (label_norm_spans); end to end on a slice (C12_refslice); case-folding table generated from x/text and judged against an independent normaliser",
    "C13": "full proof on the model: C13_full = Props.C13_statement (for every input every block and inline node has a valid span and the shape of its construct); tie: (kind, span) correspondence plus the shape oracle and the formal statement evaluated on the implementation's trees",
    "C14": "proof on the model through the whole pipeline: CR clause for every input (parseFull_cr, renderDoc_cr); final-newline clause for every input not ending in '>' (parseFull_final_newline, renderDoc_final_newline: rendering equal up to inserted LF; equal in safe mode unless the input ends in two spaces); CRLF clause for every input below the 999-step label limit (parseFull_crlf_limit, renderDoc_crlf) and at the block layer for every input without '['; padding clause at the block layer for every input; beyond the label limit the CRLF statement is false (finding D24 and its tab variant, witnesses proved); tie: correspondence on the variants plus the oracle",
    "C15": "full proof on the model: every recognizer equals (or is sound and complete for) its declarative definition on every line, classifiers over all 256 bytes, e-mail grammar, URI alphabet / well-formed escapes / idempotence; classifier bodies and constants are regenerated from /repo's source on every run (TieClassify.v, TieBlocks.v, TieRender.v); recognizers tied by exhaustive correspondence through the verif hook",
    "C16": "partial proof at the block layer for inputs without NUL: every root for which the executable predicate covered holds re-parses alone to itself (ReparseAll2.C16_blocks2_partial; covered excludes only definition roots, roots cut while a paragraph beginning with '[' is open, and roots after a cut inside a paragraph holding definitions, the last lifted by a computed resync check); end to end on a slice of one-line paragraphs; the excluded roots and inputs with NUL: re-parse oracle on the implementation (also under one-byte reads) plus tree correspondence",
    "C17": "full proof on the model: first clause for whole documents (C17_only_lt_escaped); second clause for every input and every prefix-closed predicate against a WHATWG data-state tokenizer fragment (C17_no_rejected_start_renderDoc, no side condition); tie: model renderer+filter on the implementation's tree, filterRaw through the hook; oracle uses x/net/html's tokenizer",
    "C18": "full proof: the explicit-stack Walk equals the recursive traversal for every tree and every callback pair over any user state (run_refines_spec), cursor invariant at every callback (walk_cursors_ok), visit-once (visit_once); tie: event traces of the extracted model vs walk.go on the implementation's trees under random policies",
    "C19": "generic schedule-independence / race-freedom theorem (Interleave) whose premise is instantiated by an effect summary regenerated from /repo's typed AST on every run (no global writes, no stores through shared tree/renderer types on the read-only side), plus a -race build running the concurrent workload; the classification's soundness and the Go memory model are trusted",
    "C20": "full proof of clause 1 on the formatWriter model (sticky first error, no write after it, healthy writer gives no error); clause 2 proved end to end on multi-block documents of text paragraphs, ATX headings, thematic breaks and fenced code (C20_blocks: formatting has the stated output, preserves the rendering and is idempotent) and otherwise decided by the oracle on generated canonical documents; tie: formatter model on the implementation's tree = implementation's bytes",
}
CATEGORY = {"C19": "other"}
TECH = {
    "C19": "Coq theorem + generated effect summary + race detector",
    "C06": "Coq proof on slices + denotation oracle + model/implementation correspondence (Coq model)",
    "C09": "Coq proof on slices + metamorphic oracle + model/implementation correspondence (Coq model)",
    "C16": "Coq proof on slices + metamorphic oracle + model/implementation correspondence (Coq model)",
}


def main():
    repo_commits = []
    checks = []
    for pid in sorted(props.CHECKS):
        c = props.CHECKS[pid]
        checks.append({
            "property_id": pid,
            "quick_cmd": "./check %s --tier quick" % pid,
            "thorough_cmd": "./check %s --tier thorough" % pid,
            "evidence_file": "evidence/%s.json" % pid,
            "replay_cmd_template": "./check %s --replay {path}" % pid,
            "engine": "coq+correspondence",
            "level_claimed": {"category": CATEGORY.get(pid, "proof"), "text": TEXT[pid], "design_ref": "DESIGN.md section 7 (%s) and section 12" % pid},
            "level_note": "; ".join(c.assumptions) + "; trusted base: DESIGN.md section 8",
            "technique": TECH.get(pid, "Coq proof over a hand-written Gallina model + regenerated tables/classifiers + differential correspondence (extracted OCaml vs Go harness) + oracle search"),
        })
    m = {
        "version": 1,
        "setup_cmd": "python3 lib/build.py",
        "hooks": {"guard": "verif",
                  "enable": "go build -tags verif (module go/ replaces zombiezen.com/go/commonmark by /repo; hook file /repo/export_verif.go)",
                  "baseline_off_cmd": "cd /repo && GOFLAGS=-mod=mod GOPROXY=off GOSUMDB=off go test -vet=off -count=1 ./...",
                  "source_commits": ["7546c11"], "add_only": True},
        "engines": [{"name": "coq+correspondence", "path": "coq/ lib/ go/ ocaml/", "serves_properties": sorted(props.CHECKS),
                     "kind_free_text": "Coq 8.16.1 developments (7 families), generated Gen*.v/Tables.v, extraction to OCaml, Go harness with oracles, Python orchestration"}],
        "checks": checks,
        "not_applicable": [],
        "notes": "Every check rebuilds harness, generated Coq files, proofs and drivers from /repo's working tree (cached by content hash). Known findings: known_findings.json.",
    }
    json.dump(m, open(os.path.join(build.VERIF, "MANIFEST.json"), "w"), indent=1)
    print("wrote MANIFEST.json with", len(checks), "checks")


if __name__ == "__main__":
    main()
