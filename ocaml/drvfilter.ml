(* Driver for the tag-filter model of coq/filter (the one filter_relaxed / filter_lt_ok / no_rejected_start are
   proved about) and the WHATWG data-state tokenizer fragment: "hex<TAB>pred" -> filtered hex <TAB> start tags *)
open Filtermodel
let rec pos_of_int n = if n = 1 then XH else if n land 1 = 1 then XI (pos_of_int (n lsr 1)) else XO (pos_of_int (n lsr 1))
let z_of_int n = if n = 0 then Z0 else if n > 0 then Zpos (pos_of_int n) else Zneg (pos_of_int (-n))
let rec int_of_pos = function XH -> 1 | XO p -> 2 * int_of_pos p | XI p -> 2 * int_of_pos p + 1
let zi = function Z0 -> 0 | Zpos p -> int_of_pos p | Zneg p -> - (int_of_pos p)
let unhex s = List.init (String.length s / 2) (fun i -> z_of_int (int_of_string ("0x" ^ String.sub s (2*i) 2)))
let hex l = String.concat "" (List.map (fun z -> Printf.sprintf "%02x" (zi z)) l)
let str_of l = String.concat "" (List.map (fun z -> String.make 1 (Char.chr (zi z))) l)
let gfm = ["title";"textarea";"style";"xmp";"iframe";"noembed";"noframes";"script";"plaintext"]
let pred name = fun n -> let s = str_of n in
  match name with
  | "gfm" -> List.mem s gfm | "all" -> true | "none" -> false
  | "set1" -> List.mem s (gfm @ ["b";"div";"a"]) | "set2" -> List.mem s (gfm @ ["em";"p";"pre";"code"]) | _ -> List.mem s gfm
let () =
  try while true do
    let line = input_line stdin in
    let (h, p) = (match String.index_opt line '\t' with
        | Some i -> (String.sub line 0 i, String.sub line (i+1) (String.length line - i - 1)) | None -> (String.trim line, "gfm")) in
    let out = filter (pred p) (unhex (String.trim h)) in
    Printf.printf "%s\t%s\n" (hex out) (String.concat "," (List.map str_of (start_tags out)))
  done with End_of_file -> ()
