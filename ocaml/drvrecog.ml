(* Driver for the recognizer models of coq/recog (the ones parseThematicBreak_correct and
   parseATXHeading_correct are proved about): prints their answers in the Go harness's format. *)
open Recogmodel
let rec pos_of_int n = if n = 1 then XH else if n land 1 = 1 then XI (pos_of_int (n lsr 1)) else XO (pos_of_int (n lsr 1))
let z_of_int n = if n = 0 then Z0 else if n > 0 then Zpos (pos_of_int n) else Zneg (pos_of_int (-n))
let rec int_of_nat = function O -> 0 | S n -> 1 + int_of_nat n
let unhex s = List.init (String.length s / 2) (fun i -> z_of_int (int_of_string ("0x" ^ String.sub s (2*i) 2)))
let () =
  try while true do
    let line = String.trim (input_line stdin) in
    let l = unhex line in
    let tb = (match parseThematicBreak l with Some e -> int_of_nat e | None -> -1) in
    let atx = (match parseATXHeading l with
        | Some (lvl, (s, e)) -> Printf.sprintf "%d:%d:%d" (int_of_nat lvl) (int_of_nat s) (int_of_nat e)
        | None -> "0:0:0") in
    Printf.printf "tb=%d atx=%s\n" tb atx
  done with End_of_file -> ()
