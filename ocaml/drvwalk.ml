(* Model-side driver for C18: runs the extracted explicit-stack Walk model (coq/walk/W2.v, function run)
   on the tree the Go harness printed, under the same callback policy, and prints the event trace. *)
open Walkmodel

let rec pos_of_int n = if n = 1 then XH else if n land 1 = 1 then XI (pos_of_int (n lsr 1)) else XO (pos_of_int (n lsr 1))
let z_of_int n = if n = 0 then Z0 else if n > 0 then Zpos (pos_of_int n) else Zneg (pos_of_int (-n))
let rec int_of_pos = function XH -> 1 | XO p -> 2 * int_of_pos p | XI p -> 2 * int_of_pos p + 1
let zi = function Z0 -> 0 | Zpos p -> int_of_pos p | Zneg p -> - (int_of_pos p)
let rec nat_of_int n = if n <= 0 then O else S (nat_of_int (n - 1))
let rec int_of_nat = function O -> 0 | S n -> 1 + int_of_nat n

(* tree syntax: "(" label isblock tree* ")" *)
let parse_trees (s : string) : tree list =
  let n = String.length s in
  let pos = ref 0 in
  let skip () = while !pos < n && s.[!pos] = ' ' do incr pos done in
  let num () = skip (); let st = !pos in
    while !pos < n && (s.[!pos] = '-' || (s.[!pos] >= '0' && s.[!pos] <= '9')) do incr pos done;
    int_of_string (String.sub s st (!pos - st)) in
  let rec tree () =
    skip (); assert (s.[!pos] = '('); incr pos;
    let lab = num () in let isb = num () in
    let kids = ref [] in
    skip ();
    while s.[!pos] = '(' do kids := tree () :: !kids; skip () done;
    assert (s.[!pos] = ')'); incr pos;
    T (nat_of_int lab, isb = 1, List.fold_left (fun f t -> FCons (t, f)) FNil !kids) in
  let out = ref [] in
  skip ();
  while !pos < n do
    if s.[!pos] = '|' then incr pos else out := tree () :: !out;
    skip ()
  done;
  List.rev !out

let rec size = function T (_, _, f) -> 1 + fsize f
and fsize = function FNil -> 0 | FCons (t, f) -> size t + fsize f

let lab = function T (l, _, _) -> int_of_nat l
let olab = function Some t -> lab t | None -> -1

let () =
  try while true do
    let line = input_line stdin in
    let (ts, param) = (match String.index_opt line '\t' with
        | Some i -> (String.sub line 0 i, String.sub line (i+1) (String.length line - i - 1))
        | None -> (line, "")) in
    let prune = Hashtbl.create 8 in
    let abort = ref (-1) and nopre = ref false and nopost = ref false in
    List.iter (fun kv ->
        if kv = "nopre" then nopre := true
        else if kv = "nopost" then nopost := true
        else if String.length kv > 6 && String.sub kv 0 6 = "prune=" then
          List.iter (fun x -> match int_of_string_opt x with Some k -> Hashtbl.replace prune k () | None -> ())
            (String.split_on_char '.' (String.sub kv 6 (String.length kv - 6)))
        else if String.length kv > 6 && String.sub kv 0 6 = "abort=" then
          abort := int_of_string (String.sub kv 6 (String.length kv - 6)))
      (String.split_on_char ';' param);
    let buf = Buffer.create 256 in
    let first = ref true in
    List.iter (fun t ->
        (* user state: (number of Pre calls, number of Post calls) *)
        let pre = if !nopre then None else Some (fun (a, b) (_ : cursor) -> ((a + 1, b), not (Hashtbl.mem prune a))) in
        let post = if !nopost then None else Some (fun (a, b) (_ : cursor) -> ((a, b + 1), b <> !abort)) in
        let root = { f_cur = { c_node = t; c_parent = None; c_block = None; c_index = z_of_int (-1) }; f_post = false } in
        let fuel = nat_of_int (2 * size t + 2) in
        if not !first then Buffer.add_char buf ' ';
        first := false;
        Buffer.add_string buf "walk";
        (match run pre post fuel [root] (0, 0) [] with
         | Some (_, tr) ->
           List.iter (fun e ->
               let (k, c) = (match e with EPre c -> ("pre", c) | EPost c -> ("post", c)) in
               Buffer.add_string buf (Printf.sprintf " %s:%d:%d:%d:%d" k (lab c.c_node) (olab c.c_parent) (olab c.c_block) (zi c.c_index))) tr
         | None -> Buffer.add_string buf " OUTOFFUEL")) (parse_trees ts);
    print_endline (Buffer.contents buf)
  done with End_of_file -> ()
