(* Model-side driver: runs the extracted Gallina model (model.ml) on the same cases as the Go
   harness and prints observations in the same textual format.  Hand-written glue only:
   hex / S-expression I/O and conversion between OCaml ints and Coq's Z. *)
open Model

let rec pos_of_int n = if n = 1 then XH else if n land 1 = 1 then XI (pos_of_int (n lsr 1)) else XO (pos_of_int (n lsr 1))
let z_of_int n = if n = 0 then Z0 else if n > 0 then Zpos (pos_of_int n) else Zneg (pos_of_int (-n))
let rec int_of_pos = function XH -> 1 | XO p -> 2 * int_of_pos p | XI p -> 2 * int_of_pos p + 1
let zi = function Z0 -> 0 | Zpos p -> int_of_pos p | Zneg p -> - (int_of_pos p)
let unhex s = List.init (String.length s / 2) (fun i -> z_of_int (int_of_string ("0x" ^ String.sub s (2*i) 2)))
let hex l =
  let b = Buffer.create 64 in
  List.iter (fun z -> Buffer.add_string b (Printf.sprintf "%02x" (zi z))) l; Buffer.contents b
let b2i b = if b then 1 else 0
let str_of l = String.concat "" (List.map (fun z -> String.make 1 (Char.chr (zi z))) l)

(* ---- printing, same format as go/harness/dump.go ---- *)
let rec dump_i buf i =
  let Inl (k, s, e, ind, _, kids) = i in
  Buffer.add_string buf (Printf.sprintf "(I %d %d %d %d %s" (zi k) (zi s) (zi e) (zi ind) (hex (linkReference i)));
  List.iter (dump_i buf) kids; Buffer.add_char buf ')'
let rec dump_b src buf b =
  let Blk (k, s, e, bk, ik, _, n, _, _, _) = b in
  let k' = zi k in
  let level = if k' = 3 || k' = 4 then zi n else 0 in
  let ord = isOrdered b in
  Buffer.add_string buf (Printf.sprintf "(B %d %d %d %d %d %d %d" k' (zi s) (zi e) level (b2i ord) (b2i (isTightList b))
                           (zi (listItemNumber src b)));
  (match bk with [] -> List.iter (dump_i buf) ik | _ -> List.iter (dump_b src buf) bk);
  Buffer.add_char buf ')'
let dump_roots buf roots =
  List.iter (fun r ->
      Buffer.add_string buf (Printf.sprintf "(R %d %d %d %s " (zi r.rb_line) (zi r.rb_start) (zi r.rb_end) (hex r.rb_src));
      dump_b r.rb_src buf r.rb_blk; Buffer.add_char buf ')') roots
let dump_refs buf roots =
  let refs = refsOfRoots roots in
  let l = List.map (fun (k, d) -> (str_of k, d)) refs in
  let l = List.sort (fun (a, _) (b, _) -> compare a b) l in
  Buffer.add_string buf " M";
  List.iter (fun (k, d) ->
      let kz = List.init (String.length k) (fun i -> z_of_int (Char.code k.[i])) in
      Buffer.add_string buf (Printf.sprintf "(%s %s %s %d)" (hex kz) (hex d.ld_dest) (hex d.ld_title) (b2i d.ld_has))) l

(* ---- configurations, same numbering as go/harness cfgOf ---- *)
let gfm = ["title";"textarea";"style";"xmp";"iframe";"noembed";"noframes";"script";"plaintext"]
let cfg_of k =
  let fk = (k / 6) mod 5 in
  { softBreak = z_of_int (k mod 3); ignoreRaw = ((k / 3) mod 2 = 1); filterOn = (fk <> 0);
    filterP = (fun n -> let s = str_of n in
                match fk with 1 -> List.mem s gfm | 2 -> true | 3 -> false | 4 -> List.mem s ["p";"em";"script";"/li"] | _ -> false) }

(* ---- reading a dump back into model trees ---- *)
type tok = L | R | A of string
let tokenize (s : string) : tok list =
  let n = String.length s in
  let rec go i acc =
    if i >= n then List.rev acc
    else match s.[i] with
      | '(' -> go (i+1) (L :: acc)
      | ')' -> go (i+1) (R :: acc)
      | ' ' -> go (i+1) acc
      | _ -> let j = ref i in
        while !j < n && s.[!j] <> '(' && s.[!j] <> ')' && s.[!j] <> ' ' do incr j done;
        go !j (A (String.sub s i (!j - i)) :: acc)
  in go 0 []
exception Bad of string
let int_atom = function A a -> (try int_of_string a with _ -> raise (Bad ("int " ^ a))) | _ -> raise (Bad "atom expected")
let rec take_ints n ts = if n = 0 then ([], ts) else match ts with
    | t :: r -> let (l, r') = take_ints (n-1) r in (int_atom t :: l, r')
    | [] -> raise (Bad "eof")
(* node := "(" ("B" 7 ints | "I" 4 ints [hex]) node* ")" *)
type node = NB of block | NI of inline
let rec parse_node ts : node * tok list =
  match ts with
  | L :: A "B" :: r ->
    let (f, r) = take_ints 7 r in
    let (kids, r) = parse_kids r in
    (match f with
     | [k; s; e; level; ord; tight; _] ->
       let bk = List.filter_map (function NB b -> Some b | _ -> None) kids in
       let ik = List.filter_map (function NI i -> Some i | _ -> None) kids in
       let n = z_of_int level in
       let ch = z_of_int (if ord = 1 then 46 else 45) in
       let loose = (k = 10 || k = 11) && tight = 0 in
       (NB (Blk (z_of_int k, z_of_int s, z_of_int e, bk, ik, Z0, n, ch, loose, false)), r)
     | _ -> raise (Bad "B fields"))
  | L :: A "I" :: r ->
    let (f, r) = take_ints 4 r in
    let (rf, r) = (match r with A h :: r' -> (unhex h, r') | _ -> ([], r)) in
    let (kids, r) = parse_kids r in
    let ik = List.filter_map (function NI i -> Some i | _ -> None) kids in
    (match f with
     | [k; s; e; ind] -> (NI (Inl (z_of_int k, z_of_int s, z_of_int e, z_of_int ind, rf, ik)), r)
     | _ -> raise (Bad "I fields"))
  | _ -> raise (Bad "node")
and parse_kids ts : node list * tok list =
  match ts with
  | R :: r -> ([], r)
  | L :: _ -> let (n, r) = parse_node ts in let (l, r') = parse_kids r in (n :: l, r')
  | _ -> raise (Bad "kids")
let rec parse_roots ts acc =
  match ts with
  | L :: A "R" :: r ->
    let (f, r) = take_ints 3 r in
    let (src, r) = (match r with A h :: r' when (match r' with L :: _ -> true | _ -> false) -> (unhex h, r') | _ -> ([], r)) in
    let (n, r) = parse_node r in
    let r = (match r with R :: r' -> r' | _ -> raise (Bad "root close")) in
    (match f, n with
     | [line; st; en], NB b ->
       parse_roots r ({ rb_line = z_of_int line; rb_start = z_of_int st; rb_end = z_of_int en; rb_src = src; rb_blk = b } :: acc)
     | _ -> raise (Bad "root"))
  | _ -> (List.rev acc, ts)
(* refs := "M" ( "(" key dest title tp ")" )* ; empty hex fields vanish, so count atoms *)
let parse_refs ts =
  match ts with
  | A "M" :: r ->
    let rec go ts acc = match ts with
      | L :: r ->
        let rec atoms ts acc = (match ts with A a :: r -> atoms r (a :: acc) | R :: r -> (List.rev acc, r) | _ -> raise (Bad "ref")) in
        let (l, r) = atoms r [] in
        go r (l :: acc)
      | _ -> List.rev acc in
    go r []
  | _ -> []

let split_tab s = String.split_on_char '\t' s

let () =
  let mode = if Array.length Sys.argv > 1 then Sys.argv.(1) else "blocks" in
  let idx = ref 0 in
  (try while true do
      let line = input_line stdin in
      let fields = split_tab line in
      let f0 = String.trim (List.hd fields) in
      let param = (match fields with _ :: p :: _ -> p | _ -> "") in
      let k = (match int_of_string_opt param with Some k -> k | None -> !idx mod 30) in
      let buf = Buffer.create 1024 in
      (match mode with
       | "blocks" ->
         let (roots, code) = parseBlocks (unhex f0) in
         dump_roots buf roots;
         if zi code <> 0 then Buffer.add_string buf (Printf.sprintf " CODE%d" (zi code))
       | "full" ->
         let (roots, code) = parseFull (unhex f0) in
         dump_roots buf roots; dump_refs buf roots;
         if zi code <> 0 then Buffer.add_string buf (Printf.sprintf " CODE%d" (zi code))
       | "html" -> Buffer.add_string buf (hex (renderDoc (cfg_of k) (unhex f0)))
       | "fmt" -> Buffer.add_string buf (hex (formatDoc (unhex f0)))
       | "treehtml" ->
         (* input: the implementation's dump; output: model HTML and model Format of that tree *)
         (try
            let (roots, _) = parse_roots (tokenize f0) [] in
            Buffer.add_string buf (hex (renderRoots (cfg_of k) roots));
            Buffer.add_char buf '\t';
            Buffer.add_string buf (hex (formatRoots roots))
          with Bad m -> Buffer.add_string buf ("BADDUMP " ^ m))
       | "stream" ->
         (* param: caps=3.0.1;eager=1;fault=17:E1  (same syntax as the Go harness) *)
         let input = unhex f0 in
         let caps = ref [] and eager = ref false and final = ref 1 and k = ref (List.length input) in
         List.iter (fun kv ->
             match String.index_opt kv '=' with
             | None -> ()
             | Some i ->
               let key = String.sub kv 0 i and v = String.sub kv (i+1) (String.length kv - i - 1) in
               if key = "caps" then caps := List.filter_map (fun x -> if x = "" then None else Some (z_of_int (int_of_string x))) (String.split_on_char '.' v)
               else if key = "eager" then eager := (v = "1")
               else if key = "fault" then begin
                 (match String.split_on_char ':' v with
                  | n :: rest -> k := min !k (int_of_string n); final := (match rest with "E2" :: _ -> 3 | _ -> 2)
                  | [] -> ()) end)
           (String.split_on_char ';' param);
         let delivered = List.filteri (fun i _ -> i < !k) input in
         let ((((roots, err), extra), log), code) = parseStream !caps !eager (z_of_int !final) delivered in
         let ename e = (match zi e with 0 -> "nil" | 1 -> "EOF" | 2 -> "E1" | 3 -> "E2" | 4 -> "too-large" | -1 -> "block" | _ -> "?") in
         dump_roots buf roots; dump_refs buf roots;
         Buffer.add_string buf ("\tE:" ^ ename err);
         Buffer.add_string buf ("\tX:" ^ String.concat "," (List.map ename extra));
         Buffer.add_string buf ("\tL:" ^ String.concat "," (List.map (fun ((c, n), e) ->
             Printf.sprintf "%d/%d/%s" (zi c) (zi n) (if zi e = 0 then "-" else ename e)) log));
         if zi code <> 0 then Buffer.add_string buf (Printf.sprintf " CODE%d" (zi code))
       | "chk" ->
         (* the formal statements of Props.v evaluated on a tree dump; param = hex of the input the dump came from *)
         (try
            let (roots, _) = parse_roots (tokenize f0) [] in
            let input = unhex param in
            let v = validUtf8 input in
            let all f = List.for_all f roots in
            Buffer.add_string buf (Printf.sprintf "C01=%d C02=%d C03=%d C05=%d C13=%d"
              (b2i (chk_C01 input roots)) (b2i (all (chk_C02_root v))) (b2i (all chk_C03_root)) (b2i (all chk_C05_root)) (b2i (all chk_C13_root)))
          with Bad m -> Buffer.add_string buf ("BADDUMP " ^ m))
       | "chkmodel" ->
         let input = unhex f0 in
         let (roots, _) = parseFull input in
         let v = validUtf8 input in
         let all f = List.for_all f roots in
         Buffer.add_string buf (Printf.sprintf "C01=%d C02=%d C03=%d C05=%d C13=%d"
           (b2i (chk_C01 input roots)) (b2i (all (chk_C02_root v))) (b2i (all chk_C03_root)) (b2i (all chk_C05_root)) (b2i (all chk_C13_root)))
       | "chk17" ->
         (* C17: the side condition chkRoots of C17_no_rejected_start_doc_partial (it does not depend on the predicate: chkB_setP),
            evaluated on the implementation's tree; k selects soft-break behaviour and IgnoreRaw, the filter is switched on *)
         (try
            let (roots, _) = parse_roots (tokenize f0) [] in
            let c0 = cfg_of k in
            let c = { softBreak = c0.softBreak; ignoreRaw = c0.ignoreRaw; filterOn = true; filterP = (fun _ -> false) } in
            Buffer.add_string buf (if chkRoots c (refsOfRoots roots) roots then "1" else "0")
          with Bad m -> Buffer.add_string buf ("BADDUMP " ^ m))
       | "emphspec" ->
         (* C11: the forest the delimiter-run procedure of the spec denotes (EmphSpec.specForest) for a line of the slice *)
         let t = unhex f0 in
         if okEmph t then List.iter (dump_i buf) (specForest t) else Buffer.add_string buf "skip"
       | "emphspec2" ->
         (* C11, widened slice: decode the line into code points (driver glue), check the slice condition and that the
            spec's own encoder reproduces the bytes, then print the forest the spec procedure denotes *)
         let bs = List.map zi (unhex f0) in
         let rec dec l = (match l with
             | [] -> Some []
             | b :: r when b < 128 -> (match dec r with Some t -> Some (b :: t) | None -> None)
             | b :: c :: r when b >= 0xC2 && b < 0xE0 && c land 0xC0 = 0x80 ->
               (match dec r with Some t -> Some ((((b land 0x1F) lsl 6) lor (c land 0x3F)) :: t) | None -> None)
             | b :: c :: d :: r when b >= 0xE0 && b < 0xF0 && c land 0xC0 = 0x80 && d land 0xC0 = 0x80 ->
               (match dec r with Some t -> Some ((((b land 0x0F) lsl 12) lor ((c land 0x3F) lsl 6) lor (d land 0x3F)) :: t) | None -> None)
             | _ -> None) in
         (match dec bs with
          | Some cps ->
            let cs = List.map z_of_int cps in
            if okLine2 cs && List.map zi (utf8 cs) = bs then List.iter (dump_i buf) (specForest2 (utf8 cs)) else Buffer.add_string buf "skip"
          | None -> Buffer.add_string buf "skip")
       | "entriesok" ->
         (* C02: the hypothesis of InlineSpans.parseInlines_spans (lifted in SpanHyp.v), evaluated on the implementation's
            pre-inline tree (dump of NextBlock's result) *)
         (try
            let (roots, _) = parse_roots (tokenize f0) [] in
            Buffer.add_string buf (if entriesOKroots roots then "1" else "0")
          with Bad m -> Buffer.add_string buf ("BADDUMP " ^ m))
       | "shapehyp" ->
         (* C13: the hypothesis of InlineShapes.parseInlines_shapes (lifted in ShapeHyp.v) on the implementation's pre-inline tree *)
         (try
            let (roots, _) = parse_roots (tokenize f0) [] in
            Buffer.add_string buf (if shapeHypRoots roots then "1" else "0")
          with Bad m -> Buffer.add_string buf ("BADDUMP " ^ m))
       | "leafok" ->
         (* C07: the leaf hypothesis of C07_render_safeW, evaluated on the implementation's tree *)
         (try
            let (roots, _) = parse_roots (tokenize f0) [] in
            let ign = (k / 3) mod 2 = 1 in
            Buffer.add_string buf (if List.for_all (fun r -> bokW ign r.rb_src r.rb_blk) roots then "1" else "0")
          with Bad m -> Buffer.add_string buf ("BADDUMP " ^ m))
       | "recog" ->
         let l = unhex f0 in
         let ((lvl, cs), ce) = parseATXHeading l in
         let (((ch, n), is), ie) = parseCodeFence l in
         let ((d, num), e) = parseListMarker l in
         Buffer.add_string buf (Printf.sprintf "tb=%d atx=%d:%d:%d setext=%d fence=%d:%d:%d:%d lm=%d:%d:%d"
           (zi (parseThematicBreak l)) (zi lvl) (zi cs) (zi ce) (zi (parseSetextHeadingUnderline l))
           (zi ch) (zi n) (zi is) (zi ie) (zi d) (zi num) (zi e))
       | "uri" -> Buffer.add_string buf (hex (normalizeURI (unhex f0)))
       | "email" -> let l = unhex f0 in
         Buffer.add_string buf (Printf.sprintf "%d %s" (zi (parseEmail l)) (if isEmailAddress l then "true" else "false"))
       | "filterraw" ->
         let fk = (match param with "gfm" -> 1 | "all" -> 2 | "none" -> 3 | "set1" -> 5 | "set2" -> 6 | _ -> 1) in
         let c = { softBreak = Z0; ignoreRaw = false; filterOn = true;
                   filterP = (fun n -> let s = str_of n in
                     match fk with 1 -> List.mem s gfm | 2 -> true | 3 -> false
                                 | 5 -> List.mem s (gfm @ ["b";"div";"a"]) | 6 -> List.mem s (gfm @ ["em";"p";"pre";"code"]) | _ -> false) } in
         Buffer.add_string buf (hex (filterRaw c (unhex f0)))
       | "class" ->
         for c = 0 to 255 do
           let z = z_of_int c in
           let m = (b2i (isSpaceTabOrLineEnding z)) lor (b2i (isASCIILetter z) lsl 1) lor (b2i (isASCIIDigit z) lsl 2)
                   lor (b2i (isASCIIPunctuation z) lsl 3) lor (b2i (isASCIIControl z) lsl 4) lor (b2i (isHex z) lsl 5)
                   lor (b2i (isUnquotedAttributeValueChar z) lsl 6) in
           Buffer.add_string buf (Printf.sprintf "%d %d %d %d\n" c m (zi (toLowerASCII z)) (zi (urlHexDigit (z_of_int (c land 15)))))
         done
       | _ -> failwith "unknown mode");
      print_endline (Buffer.contents buf);
      incr idx
    done with End_of_file -> ())
